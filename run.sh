#!/bin/sh
# Build the simulator against the current working tree of the repository (with the
# `verif` hooks on) and run it.   usage: run.sh check <ID> [--tier quick|thorough] | replay <file> | selftest ...
# VERIF_REPO (default /repo) selects the tree to build against (sensitivity runs use scratch copies).
# Exit 2 = build or harness trouble (never a VIOLATION).
HERE=$(cd "$(dirname "$0")" && pwd)
export VERIF_HOME="$HERE"
export GOFLAGS=-mod=mod GOPROXY=off GOSUMDB=off GOTOOLCHAIN=local
REPO=${VERIF_REPO:-/repo}
mkdir -p "$HERE/.bin" "$HERE/.work"
RACE=""
BIN="$HERE/.bin/simcheck"
MODFLAG=""
if [ "$REPO" != "/repo" ]; then
  TAG=$(printf '%s' "$REPO" | cksum | cut -d' ' -f1)
  sed "s#=> /repo#=> $REPO#" "$HERE/sim/go.mod" > "$HERE/.work/go.$TAG.mod" || exit 2
  cp "$HERE/sim/go.sum" "$HERE/.work/go.$TAG.sum" || exit 2
  MODFLAG="-modfile=$HERE/.work/go.$TAG.mod"
  BIN="$HERE/.bin/simcheck.$TAG"
fi
export VERIF_BIN="$BIN"
if ! go build -C "$HERE/sim" $MODFLAG -tags verif -o "$BIN" . 2> "$HERE/.work/build.$$.log"; then
  echo "BUILD-ERROR (exit 2): the simulator does not build against $REPO"
  cat "$HERE/.work/build.$$.log"; rm -f "$HERE/.work/build.$$.log"
  exit 2
fi
rm -f "$HERE/.work/build.$$.log"
case "$1:$2" in replay:*C20*) VERIF_NEED_RACE=1;; esac
if [ "${VERIF_NEED_RACE:-0}" = "1" ] || [ "$2" = "C20" ]; then
  if ! go build -C "$HERE/sim" $MODFLAG -race -tags verif -o "$BIN.race" . 2> "$HERE/.work/build.$$.log"; then
    echo "BUILD-ERROR (exit 2): the race-detector build of the simulator fails against $REPO"
    cat "$HERE/.work/build.$$.log"; rm -f "$HERE/.work/build.$$.log"
    exit 2
  fi
  rm -f "$HERE/.work/build.$$.log"
  export VERIF_BIN_RACE="$BIN.race"
fi
exec "$BIN" "$@"
