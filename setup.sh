#!/bin/sh
# Offline setup: build the simulator once (warms the Go build cache). Everything is on disk.
HERE=$(cd "$(dirname "$0")" && pwd)
"$HERE/run.sh" list >/dev/null || exit 2
VERIF_NEED_RACE=1 "$HERE/run.sh" list >/dev/null || exit 2
echo "setup ok"
