#!/bin/sh
# Behaviour-preserving variants of the library: every check must stay at exit 0 on each of them.
# usage: run_guards.sh [guard-name-substring]
# The simulator sources are snapshotted first (to /tmp/try/vsnap), so edits under /verif/sim during a long
# run cannot disturb it; PROPS="C05 C13" restricts the checks that are run (rows of other checks are kept).
export GOFLAGS=-mod=mod GOPROXY=off GOSUMDB=off GOTOOLCHAIN=local
cd /verif || exit 2
ALL=${PROPS:-"C03 C05 C06 C07 C12 C13 C14 C15 C19 C20"}
SNAP=/tmp/try/vsnap.$$
rm -rf $SNAP; mkdir -p $SNAP; cp -r sim run.sh known_findings.json $SNAP/ || exit 2
OUT=/verif/guards/RESULTS.tsv
: > $OUT.tmp
mkdir -p /tmp/try
for g in guards/*$1*.diff; do
  name=$(basename $g .diff)
  WT=/tmp/try/guard_$name
  rm -rf $WT; git -C /repo worktree prune
  git -C /repo worktree add -q --detach $WT HEAD || exit 2
  if ! git -C $WT apply /verif/$g; then echo "$name: patch does not apply"; git -C /repo worktree remove --force $WT; continue; fi
  export VERIF_OUT=/tmp/try/out.guard_$name; mkdir -p $VERIF_OUT
  for P in $ALL; do
    VERIF_REPO=$WT $SNAP/run.sh check $P --tier quick > /tmp/try/guard_$name.$P.log 2>&1
    code=$?
    printf "%s\t%s\t%s\t%s\n" "$name" "$P" "$code" "$(grep -m1 '^violation\|HARNESS\|BUILD' /tmp/try/guard_$name.$P.log | cut -c1-200)" >> $OUT.tmp
  done
  git -C /repo worktree remove --force $WT; rm -rf $VERIF_OUT; rm -f $SNAP/.bin/simcheck.$(printf '%s' "$WT" | cksum | cut -d' ' -f1)*
done
rm -rf $SNAP
python3 - "$OUT" <<'PYEOF'
import sys,os
out=sys.argv[1]
new=[l for l in open(out+".tmp",newline="\n")]
names={tuple(l.split("\t")[:2]) for l in new}
old=[l for l in open(out,newline="\n") if "\t" in l and l[:1] in "CGAr"] if os.path.exists(out) else []
keep=[l for l in old if tuple(l.split("\t")[:2]) not in names]
rows=sorted(keep+new)
open(out,"w",newline="\n").writelines(rows)
os.remove(out+".tmp")
PYEOF
 awk -F'\t' '$3!=0' $OUT; echo "guards: $(awk -F'\t' '$3==0' $OUT | wc -l) check runs at exit 0, $(awk -F'\t' '$3!=0' $OUT | wc -l) not"
