#!/bin/sh
# usage: seed_matrix.sh [all]   — runs every seeded change under /verif/seeded against the quick check of its own
# property (or of all claimed properties with "all") in scratch worktrees and writes /verif/seeded/RESULTS.tsv
cd /verif || exit 2
ALL="C03 C05 C06 C07 C12 C13 C14 C15 C19 C20"
OUT=/verif/seeded/RESULTS.tsv
[ "$1" = "all" ] && OUT=/verif/seeded/RESULTS-all.tsv
# the simulator sources are snapshotted first, so that edits under /verif/sim during a long run cannot disturb it
SNAP=/tmp/try/msnap.$$
mkdir -p $SNAP; cp -r sim run.sh known_findings.json $SNAP/ || exit 2
export VERIF_RUNNER=$SNAP/run.sh
TMP=$OUT.tmp.$$
: > $TMP
for d in seeded/*${ONLY:-}*/; do
  name=$(basename $d); prop=${name%%-*}
  case "$prop" in C[0-9]*) ;; *) prop=$(python3 -c "import json,sys; print(json.load(open('$d/meta.json'))['property'])" 2>/dev/null);; esac
  [ -f $d/patch.diff ] || continue
  props=$prop; [ "$1" = "all" ] && props=$ALL
  tools/try_seed.sh $d $props > /tmp/try/matrix.$name.log 2>&1
  pre=$(grep -c "as required" /tmp/try/matrix.$name.log)
  grep "^check " /tmp/try/matrix.$name.log | while read -r _ p _ code rest; do
    printf "%s\t%s\t%s\t%s\t%s\n" "$name" "${p%:}" "$code" "$pre/3 preconditions" "$(echo "$rest" | tr -d '\r' | cut -c1-160)" >> $TMP
  done
done
rm -rf $SNAP
python3 - "$OUT" "$TMP" <<'PYEOF'
import sys,os
out=sys.argv[1]
tmp=sys.argv[2]
new=[l for l in open(tmp,newline="\n")]
names={l.split("\t")[0] for l in new}
old=[l for l in open(out,newline="\n") if "\t" in l and l[:1] in "CGAr"] if os.path.exists(out) else []
keep=[l for l in old if l.split("\t")[0] not in names]
rows=sorted(keep+new)
open(out,"w",newline="\n").writelines(rows)
os.remove(tmp)
PYEOF
 cat $OUT
