#!/bin/sh
# usage: seed_matrix.sh [all]   — runs every seeded change under /verif/seeded against the quick check of its own
# property (or of all claimed properties with "all") in scratch worktrees and writes /verif/seeded/RESULTS.tsv
cd /verif || exit 2
ALL="C03 C05 C06 C07 C12 C13 C14 C15 C19 C20"
OUT=/verif/seeded/RESULTS.tsv
[ "$1" = "all" ] && OUT=/verif/seeded/RESULTS-all.tsv
: > $OUT.tmp
for d in seeded/*${ONLY:-}*/; do
  name=$(basename $d); prop=${name%%-*}
  case "$prop" in C[0-9]*) ;; *) prop=$(python3 -c "import json,sys; print(json.load(open('$d/meta.json'))['property'])" 2>/dev/null);; esac
  [ -f $d/patch.diff ] || continue
  props=$prop; [ "$1" = "all" ] && props=$ALL
  tools/try_seed.sh $d $props > /tmp/try/matrix.$name.log 2>&1
  pre=$(grep -c "as required" /tmp/try/matrix.$name.log)
  grep "^check " /tmp/try/matrix.$name.log | while read -r _ p _ code rest; do
    printf "%s\t%s\t%s\t%s\t%s\n" "$name" "${p%:}" "$code" "$pre/3 preconditions" "$(echo "$rest" | cut -c1-160)" >> $OUT.tmp
  done
done
python3 - "$OUT" <<'PYEOF'
import sys,os
out=sys.argv[1]
new=[l for l in open(out+".tmp")]
names={l.split("\t")[0] for l in new}
old=[l for l in open(out)] if os.path.exists(out) else []
keep=[l for l in old if l.split("\t")[0] not in names]
rows=sorted(keep+new)
open(out,"w").writelines(rows)
os.remove(out+".tmp")
PYEOF
 cat $OUT
