#!/usr/bin/env python3
"""Writes seeded/<id>/meta.json for every seeded change from seeded/RESULTS.tsv (tools/seed_matrix.sh) and the
sub-agent's own description (agent_meta.json)."""
import json, os, glob
HERE = os.path.dirname(os.path.dirname(os.path.abspath(__file__)))
res = {}
for l in open(os.path.join(HERE, "seeded", "RESULTS.tsv")):
    f = l.rstrip("\n").split("\t")
    if len(f) >= 5:
        res.setdefault(f[0], []).append((f[1], f[2], f[3], f[4]))
n = 0
for d in sorted(glob.glob(os.path.join(HERE, "seeded", "*/"))):
    name = os.path.basename(d.rstrip("/"))
    if name not in res:
        continue
    am = {}
    if os.path.exists(d + "agent_meta.json"):
        try:
            am = json.load(open(d + "agent_meta.json"))
        except Exception:
            am = {}
    old = {}
    if os.path.exists(d + "meta.json"):
        try:
            old = json.load(open(d + "meta.json"))
        except Exception:
            old = {}
    prop = res[name][0][0]
    pre = res[name][0][2]
    meta = {
        "property": am.get("property") or old.get("property") or prop,
        "summary": am.get("summary") or old.get("summary"),
        "needs": am.get("needs") or old.get("needs"),
        "origin": old.get("origin") if name.startswith("revert-") else "written by a fresh sub-agent given only the property text (waves 3 and 4: plus one-line summaries of earlier proposals to avoid) and a scratch worktree; confirmed in a scratch worktree with tools/try_seed.sh",
        "confirmed": {"preconditions_met": pre, "how": "tools/try_seed.sh seeded/%s %s: git worktree of /repo HEAD under /tmp/try, demo passes on the clean tree, git apply patch.diff, go test -vet=off -count=1 ./... passes, demo (copied to the repository root) fails" % (name, prop)},
        "detected_by": {p + " quick": ("exit %s%s" % (code, rest)) for p, code, _, rest in res[name]},
    }
    json.dump(meta, open(d + "meta.json", "w"), indent=1)
    n += 1
print("meta.json written for", n, "seeded changes")
