#!/usr/bin/env python3
"""Regenerates /verif/MANIFEST.json from the table below (kept in one place so that it stays valid)."""
import json, os, subprocess
HERE = os.path.dirname(os.path.dirname(os.path.abspath(__file__)))

BASELINE = "cd /repo && go test -mod=mod -json -vet=off -count=1 -timeout 25m ./..."

def hook_commits():
    try:
        out = subprocess.check_output(["git", "-C", "/repo", "log", "--format=%H %s"], text=True)
        return [l.split()[0] for l in out.splitlines() if l.split(" ", 1)[1].startswith("verif hooks:")]
    except Exception:
        return []

CLAIMED = {
 "C03": dict(cat="exploration", ref="DESIGN.md section 4 (C03)",
   text="Bounded liveness and crash freedom inside isolated simulated processes: every case (declarations with a drawn subset of env-backed options whose variables are set, a spec that is grammar-derived / nested-repetition shaped / byte-mutated / raw bytes, an argv of <= 6-8 tokens) must end in a documented outcome (positioned, printable spec error; acceptance with the Action run once; usage error with the Action not run). "
        "Instrumented Points are the steps of simulated time; a step budget and a call-depth budget unwind a runaway process deterministically, which only nominates the case; nominated cases and cases on which the worker process dies or stalls are re-run alone in a fresh OS process with budgets lifted and a 60 s wall clock, and only that verdict is reported (replay = the tape; crash cases are shrunk by subprocess re-execution). Quick 150 k cases, thorough 12 M.",
   note="Sampling. Trusted: the 60 s confirmation wall clock as 'does not terminate promptly' at the generator's bounds (slowest legitimate case seen finishes alone in a few seconds and is reported as a slow case, not a violation); Go runtime stack limit 256 MiB in workers.",
   tech="deterministic simulation: seeded workload + environment states, step/depth budgets as simulated-time liveness bound, worker-process crash and stall detection with fresh-process confirmation"),
 "C05": dict(cat="fault_enumeration", ref="DESIGN.md section 4 (C05), Appendix B",
   text="Every Before/Action/After on the addressed path is a simulator-owned fault point (absent / returns / panics(v) / Exit(n)) and the process-exit seam stops the simulated process at the call. "
        "The quick tier enumerates every outcome vector for path depth 0 and 1 (64 + 1 024) and samples 60 000 seeded runs up to depth 5; the thorough tier enumerates depth 0..2 completely (17 472 vectors) and samples 3 M seeded runs "
        "(depth, vector, panic value kinds incl. uncomparable values, exit codes, error policy, aliases, siblings, per-level tokens). Oracle: an executable reference model of the documented flow, independent of internal/flow; "
        "exact event sequence, exit-once with the right status, panic value identity. Complete within the enumerated bounds, sampled beyond.",
   note="Trusted: the Goexit exit seam as a model of os.Exit; the reference model (validated against the tree on all 13 104 vectors with an Action before the framework was built); Go runtime. Sampling beyond depth 2.",
   tech="deterministic simulation: seeded + exhaustive callback-fault injection with an exit seam, checked against an executable reference model of the flow"),
 "C06": dict(cat="exploration", ref="DESIGN.md section 4 (C06 and C15), Appendix B",
   text="The environment is simulator-owned ambient state: each listed variable is unset / empty / valid / invalid / blank-padded, the command line gives the value 0..3 times, for the 7 built-in types as option and argument with zero / non-zero defaults. "
        "A structural sweep enumerates (type, opt/arg, default, env list length and states, number of command-line values, spec shape) completely (25 200 combinations, tokens seeded) and a seeded phase draws everything (40 k quick, 3 M thorough). "
        "Oracle: the precedence reference model whose validity and values come from strconv, read inside the Action and after Run. One known finding (KF-C06-1) is matched by a predicate on the violating case.",
   note="Trusted: strconv as the definition of validity; the model. Cases that the library rejects are skipped (acceptance is C12/C13's subject) - the evidence counts them (0 on the pinned tree).",
   tech="deterministic simulation: environment-state fault injection (unset/empty/invalid/padded) against an executable precedence model"),
 "C07": dict(cat="exploration", ref="DESIGN.md section 4 (C07 and C14)",
   text="Command trees (depth 0..4) with recording callbacks on every level; an invocation valid by construction is left valid or rejected by one cause at one level (missing / surplus positional, undeclared option, int / bool conversion failure, injected Set error on a custom value at its k-th call); "
        "the error stream follows a fault plan (healthy / closed / fail after N bytes / short writes); every case is executed under all three error policies and the process end is observed through the exit seam (return / exit 2 once / panic with the error). "
        "Oracle: nothing runs, error text and usage of the rejecting command on a healthy stream, policy-exact end, transcript identical across policies; accepted invocations run the path and return nil. 40 k cases quick, 4 M thorough.",
   note="Sampling. The level templates have a language known by construction (no second parser). Stream content clauses only under a healthy stream.",
   tech="deterministic simulation: rejection and Set-error injection x stream fault plans x error policies, process end observed at an exit seam"),
 "C12": dict(cat="exploration", ref="DESIGN.md section 4 (C12)",
   text="Relation between two simulated worlds that differ only in environment content: world A has every owned variable unset, world B sets a valid value for a drawn non-empty subset of the env-backed options. Same application (declarations + grammar-derived spec) and command line (walk of the spec, folded / mutated) in both. "
        "Oracle: accepted in A => accepted in B, identical values for options written on the command line (specs without `--`); directed modes: an option occurring once is removed from the command line and left to the environment (must be accepted), an env-backed option given 2..4 times under -x..., [-x]..., [OPTIONS]. 60 k cases quick, 4 M thorough. Known finding KF-C12-1 matched by predicate.",
   note="Sampling. A world-B run that exceeds the step budget is re-run with a 100x budget before it counts as not accepted; exceeding the depth budget counts as not accepted.",
   tech="deterministic simulation: two-world metamorphic relation over environment content with seeded specs and command lines"),
 "C13": dict(cat="exploration", ref="DESIGN.md section 4 (C13) - weak fit, stated",
   text="Edge-case tokens (numeric boundaries, signs, exponents, hex/underscore forms, inf/nan, blanks, unicode digits, invalid UTF-8, empty string, byte mutations) for the 7 built-in types, delivered by every route: --opt=T, -o=T, -oT, -o T, --opt T, positional (also after `--`), environment scalar and environment list element; optionally followed / preceded by a valid occurrence. "
        "Oracle: acceptance and value per strconv; an unparsable command-line token in any position => usage error and the Action never runs; an unparsable environment token falls through. Only the delivery route and the rejection history are simulation; the token generator is plain input generation. 60 k quick, 4 M thorough.",
   note="Sampling. strconv is the reference. Environment list delivery uses an empty default so that KF-C06-1 (C06's subject) is not observed here.",
   tech="deterministic simulation (weak fit): token delivery through command-line spellings and the simulated environment, strconv as reference model"),
 "C14": dict(cat="exploration", ref="DESIGN.md section 4 (C07 and C14) - weak fit, stated",
   text="Same world as C07: a help token inserted at a drawn position of a drawn level (optionally with another level made invalid on purpose: ancestors and the level itself must not be validated), a help token after the level's own `--` (ordinary data, bound verbatim), or a declared version flag in first position; stream fault plans; all three policies. "
        "Oracle: nothing runs, `Usage: <addressed path>` and the long description on a healthy stream, exit 0 once under ExitOnError and return nil otherwise. 40 k cases quick, 4 M thorough.",
   note="Sampling. Not generated (excluded by the property): help below an ancestor whose own arguments contain `--`.",
   tech="deterministic simulation: help/version short-circuit observed at the exit seam under stream fault plans and all error policies"),
 "C15": dict(cat="exploration", ref="DESIGN.md section 4 (C06 and C15)",
   text="Same world and sweep as C06 (25 200 structural combinations + seeded phase); the SetByUser pointer is always supplied and read inside the Action and after Run. Oracle: SetByUser == (the command line supplied at least one value), whatever the environment states and default.",
   note="Sampling beyond the structural sweep; cases the library rejects are skipped and counted.",
   tech="deterministic simulation: environment-state fault injection, SetByUser checked against command-line presence"),
 "C19": dict(cat="exploration", ref="DESIGN.md section 4 (C19), Appendix B",
   text="The user-supplied flag.Value is a simulator-owned probe: one Go type per subset of {IsBoolFlag, Clear, IsDefault} (plus IsBoolFlag()==false), every call logged, Set failing on a drawn call (never / k-th call of the Run phase / during declaration); as option and argument in template specs, with environment list states and 0..3 command-line tokens in every spelling (bare, folded, =value, separate, attached), optionally with a second probe container. "
        "Oracle over the Run-phase call history: Clear exactly once iff present and before any Set, then Set of exactly the bound tokens in order, nothing when no token is bound; a Set error => usage error, Action not run, no further Set. Structural sweep (2 048 combinations) + 50 k seeded quick / 3 M thorough.",
   note="Sampling beyond the sweep. Non-mutating calls (String, IsBoolFlag, IsDefault) are ignored wherever they occur; after a failing Set the other container's history only has to be a prefix of its protocol (map iteration order).",
   tech="deterministic simulation: instrumented user value types with injected Set failures, call-history oracle"),
 "C20": dict(cat="exploration", ref="DESIGN.md section 4 (C20), 3.5, 3.11",
   text="N = 2..6 independent applications drawn from all the other generators are run alone (twice) and then together as simulated processes under a cooperative scheduler that parks every process at each instrumented Point, callback and stream write and draws every switch from the tape (uniform / PCT-like / coarse / serial-order strategies): each application's outcome together (end, exit code, panic identity, events, bound values, SetByUser, probe call logs, stderr transcript) must equal its solo outcome, and rebuilding and rerunning must give the same acceptance and values. "
        "Also: environment mutated between declaration and Run must not matter; a sample of solo outcomes is cross-checked against a fresh OS process; and a race-detector stage runs the same worlds on real parallel goroutines (-race, GOMAXPROCS 16). Quick 6 k scheduled worlds + 800 race-mode worlds; thorough 400 k + 60 k.",
   note="Sampling of schedules. The race-detector stage is not schedule-controlled (which interleaving occurs is up to the Go scheduler); it is sound because the detector reports only real races, and its replay re-runs the same world up to 5 x 400 times. Map iteration order is contained, not controlled: fields that depend on it (error text of a failing Set when several containers are filled) are excluded from the comparison.",
   tech="deterministic simulation: cooperative seeded scheduler over instrumented Points (non-interference vs solo runs) + race detector on free-running goroutines"),
}

NA = {
 "C01": "pure function of (spec, declarations, argv): language membership has no schedule, clock, fault or interleaving in it; environment backing is explicitly excluded by its quantifier. Not a simulation target (DESIGN.md sections 2 and 5).",
 "C02": "pure function of (spec, argv): bound values as a derivation; nothing to schedule, delay, fail or crash (DESIGN.md section 5).",
 "C04": "routing is a pure function of (command tree, argv); its 'exactly the addressed Action, once' core is exercised by C05's fault-free configuration and its rejection side by C07, but the property itself is not a simulation target (DESIGN.md section 5).",
 "C08": "well-formedness of a spec string and error positions: pure function of the string (DESIGN.md section 5).",
 "C09": "metamorphic relation between two argument vectors of one application in one world; environment backing excluded by its quantifier: pure (DESIGN.md section 5).",
 "C10": "spelling equivalence: pure metamorphic relation on argv (DESIGN.md section 5).",
 "C11": "commutation of adjacent options: pure metamorphic relation on argv (DESIGN.md section 5).",
 "C16": "implicit spec == explicit spec: two pure computations compared (DESIGN.md section 5).",
 "C17": "help text content is a pure function of the declarations; its 'configurations' are declaration fields, not ambient state (DESIGN.md section 5).",
 "C18": "declaration-time validation: pure function of the declaration sequence (DESIGN.md section 5).",
}

def main():
    checks = []
    for pid in sorted(CLAIMED):
        c = CLAIMED[pid]
        checks.append({
            "property_id": pid,
            "quick_cmd": f"./run.sh check {pid} --tier quick",
            "thorough_cmd": f"./run.sh check {pid} --tier thorough",
            "evidence_file": f"/verif/evidence/{pid}.json",
            "replay_cmd_template": "./run.sh replay {path}",
            "engine": "simcheck",
            "level_claimed": {"category": c["cat"], "text": c["text"], "design_ref": c["ref"]},
            "level_note": c["note"],
            "technique": c["tech"],
        })
    m = {
        "version": 1,
        "setup_cmd": "./setup.sh",
        "hooks": {
            "guard": "verif",
            "enable": "go build -tags verif (run.sh builds /verif/sim with `-tags verif` against /repo through a replace directive; internal/verifhook.Point is an empty function without the tag)",
            "baseline_off_cmd": BASELINE,
            "source_commits": hook_commits(),
            "add_only": True,
        },
        "engines": [{
            "name": "simcheck", "path": "/verif/sim",
            "serves_properties": sorted(CLAIMED),
            "kind_free_text": "deterministic simulator for a single-process library: simulated processes with an exit seam (Goexit), fault-injecting streams, owned environment, simulator-owned callbacks and value types, cooperative scheduler over instrumented Points; one choice tape per run (seeded or enumerated), tape shrinking, replay files re-executed in a fresh process",
        }],
        "checks": checks,
        "not_applicable": [{"property_id": k, "reason": v} for k, v in sorted(NA.items())],
        "notes": "VERIF_SEED seeds every choice (default 1); VERIF_TIER is honoured when --tier is absent; VERIF_WORKERS (default 16) and VERIF_WALL_S (wall-clock cap per check) are optional. Exit codes: 0 held, 1 VIOLATION, 2 build/harness trouble. Known findings and fixed defects: /verif/known_findings.json.",
    }
    json.dump(m, open(os.path.join(HERE, "MANIFEST.json"), "w"), indent=1)
    print("MANIFEST.json written:", len(checks), "checks,", len(NA), "not applicable")

if __name__ == "__main__":
    main()
