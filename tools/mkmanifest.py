#!/usr/bin/env python3
"""Regenerates /verif/MANIFEST.json from the table below (kept in one place so that it stays valid)."""
import json, os, subprocess
HERE = os.path.dirname(os.path.dirname(os.path.abspath(__file__)))

BASELINE = "cd /repo && go test -mod=mod -json -vet=off -count=1 -timeout 25m ./..."

def hook_commits():
    try:
        out = subprocess.check_output(["git", "-C", "/repo", "log", "--format=%H %s"], text=True)
        return [l.split()[0] for l in out.splitlines() if l.split(" ", 1)[1].startswith("verif hooks:")]
    except Exception:
        return []

CLAIMED = {
 "C03": dict(cat="exploration", ref="DESIGN.md section 4 (C03)",
   text="Bounded liveness and crash freedom inside isolated simulated processes: every case (1..5 options - or 66..90 in the many-options source - with a drawn subset backed by set environment variables whose contents are valid, empty, blank, separator-only, invalid or raw bytes; a spec that is grammar-derived / nested-repetition shaped / byte-mutated incl. truncated multi-byte characters / raw bytes; an argv of <= 6 tokens) must end in a documented outcome (positioned, printable spec error; acceptance with the Action run once; usage error with the Action not run). Instrumented Points are the steps of simulated time. Three budgets decide directly, deterministically and in-process because what they bound is polynomial in the input: > 200 000 consecutive iterations of a lexer/parser/matcher/shortcut-elimination loop (stuck-in-loop), > 1 M Points in one spec compilation, a call stack deeper than 100 000 frames (runaway-recursion). The total step budget only nominates; nominated cases and cases on which the worker process dies or stalls are re-run alone in a fresh OS process with budgets lifted, and only that verdict counts (died / hung = violation; still backtracking in the matcher when the clock runs out = known finding KF-C03-1). Histories: an application of the same process whose help listing panics and is recovered before the observed one; the same application object run again with the same command line (a documented outcome again; the same spec error when the spec does not compile); scheduled pairs. Quick 150 k cases, thorough 12 M.",
   note="Sampling. Trusted: the stuck-loop / compile / depth budgets as 'does not terminate' (they bound polynomial work); the wall clock only for processes that pass no Point at all; Go runtime stack limit 256 MiB in workers. Exponential backtracking on the pinned tree is a known finding, not an alarm.",
   tech="deterministic simulation: seeded workload + environment states, step/depth budgets as simulated-time liveness bound, worker-process crash and stall detection with fresh-process confirmation"),
 "C05": dict(cat="fault_enumeration", ref="DESIGN.md section 4 (C05), Appendix B",
   text="Every Before/Action/After on the addressed path is a simulator-owned fault point (absent / returns / panics(v) / Exit(n)) and the process-exit seam stops the simulated process at the call. The quick tier enumerates every outcome vector for path depth 0 and 1 (64 + 1 024) and samples 150 000 seeded runs up to depth 5; the thorough tier enumerates depth 0..2 completely (17 472 vectors) and samples 20 M seeded runs (depth, vector, panic value kinds incl. uncomparable values and genuine runtime.Error values, exit statuses incl. 0, -1, 256, error policy, aliases, siblings, per-level tokens). Histories: every rerunnable tree is invoked three times on the same application object; a scheduled-pairs phase runs two cases as concurrent simulated processes under the seeded scheduler. Oracle: an executable reference model of the documented flow, independent of internal/flow; exact event sequence, exit-once with the right status, panic value identity. Complete within the enumerated bounds, sampled beyond.",
   note="Trusted: the Goexit exit seam as a model of os.Exit; the reference model (validated against the tree on all 13 104 vectors with an Action before the framework was built); Go runtime. Sampling beyond depth 2.",
   tech="deterministic simulation: seeded + exhaustive callback-fault injection with an exit seam, checked against an executable reference model of the flow"),
 "C06": dict(cat="exploration", ref="DESIGN.md section 4 (C06 and C15), Appendix B",
   text="The environment is simulator-owned ambient state: each listed variable is unset / empty / valid / invalid / blank-padded (name lists separated by any white space), sometimes changed between the declarations and Run; the command line gives the value 0..3 times, for the 7 built-in types as option and argument, declared through the struct, Ptr (optionally pre-populated variable) and convenience forms, with zero / non-zero defaults. A structural sweep enumerates (type, opt/arg, default, env list length and states, number of command-line values, spec shape) completely (25 200 combinations, tokens seeded); seeded, scheduled-pairs and multi-container phases (2..5 options listed individually / OPTIONS / folded group, folded command lines, two list options sharing one default slice object) draw everything. Histories: the same application object parses a second command line; the environment changes between two declarations of one application (each declaration reads it at its own moment). String values include CR / LF / TAB endings; multi-container cases include `--` in the spec, `--` as a positional's value and a custom value with IsBoolFlag()==false as a bystander. Oracle: the precedence reference model whose validity and values come from strconv, read inside the Action and after Run. One known finding (KF-C06-1) is matched by a predicate on the violating case.",
   note="Trusted: strconv as the definition of validity; the model. Cases that the library rejects are skipped (acceptance is C12/C13's subject) - the evidence counts them (0 on the pinned tree).",
   tech="deterministic simulation: environment-state fault injection (unset/empty/invalid/padded) against an executable precedence model"),
 "C07": dict(cat="exploration", ref="DESIGN.md section 4 (C07 and C14)",
   text="Command trees (depth 0..4, sessions up to 6; odd but legal names; sub-commands whose initializer sets its own error policy) with recording callbacks on every level; an invocation valid by construction is left valid or rejected by one cause at one level (missing / surplus positional, undeclared option incl. number-like ones, int / bool conversion failure - for a scalar option under a repetition also in an occurrence that is not the last one -, injected Set error on a custom value at its k-th call); the error stream follows a fault plan (healthy / closed / fail after N bytes / short writes); every case is executed under all three application policies and the process end is observed through the exit seam against the rejecting command's effective policy (return / exit 2 once / panic with the error). Phases: seeded; scheduled pairs (two cases as concurrent simulated processes); sessions (one application object, 2..3 different command lines). Oracle: nothing runs, error text and usage of the rejecting command on a healthy stream, policy-exact end, transcript identical across policies; accepted invocations run the path and return nil.",
   note="Sampling. The level templates have a language known by construction (no second parser). Stream content clauses only under a healthy stream.",
   tech="deterministic simulation: rejection and Set-error injection x stream fault plans x error policies, process end observed at an exit seam"),
 "C12": dict(cat="exploration", ref="DESIGN.md section 4 (C12)",
   text="Relation between two simulated worlds that differ only in environment content: world A has every owned variable unset, world B sets a valid value for a drawn non-empty subset of the env-backed options (and sometimes removes or spoils it again after the declarations, which must not matter). Same application (declarations + grammar-derived spec) and command line (walk of the spec, folded / mutated) in both. Oracle: accepted in A => accepted in B, identical values for options written on the command line (specs without `--`); directed modes: an option occurring once is removed from the command line and left to the environment (must be accepted), an env-backed option given 2..4 times under -x..., [-x]..., [OPTIONS]. Seven cases in eight use flags / strings / string lists only (no conversion can fail); the rest keep typed containers, where known finding KF-C12-1 is observed and matched by predicate. 60 k cases quick, 8 M thorough.",
   note="Sampling. A world-B run that exceeds the step budget is re-run with a 25x budget; if it is still searching then, the case is nominated and re-run alone in a fresh process with the budgets lifted (verdict, or 'still backtracking' = C03's subject, never 'not accepted'); exceeding the depth, stuck-loop or compile budget counts as not accepted.",
   tech="deterministic simulation: two-world metamorphic relation over environment content with seeded specs and command lines"),
 "C13": dict(cat="exploration", ref="DESIGN.md section 4 (C13) - weak fit, stated",
   text="Edge-case tokens (numeric boundaries, signs, exponents, hex/underscore forms, inf/nan, blanks, unicode digits, invalid UTF-8, empty string, byte mutations) for the 7 built-in types, delivered by every route: --opt=T, -o=T, -oT, -o T, --opt T, positional (also after `--`), environment scalar and environment list element; optionally followed / preceded by a valid occurrence - or by 1 030..6 500 of them (long command lines; the liveness budgets grow with the number of tokens). "
        "Oracle: acceptance and value per strconv; an unparsable command-line token in any position => usage error and the Action never runs; an unparsable environment token falls through. Only the delivery route and the rejection history are simulation; the token generator is plain input generation. 60 k quick, 4 M thorough.",
   note="Sampling. strconv is the reference. Environment list delivery uses an empty default so that KF-C06-1 (C06's subject) is not observed here.",
   tech="deterministic simulation (weak fit): token delivery through command-line spellings and the simulated environment, strconv as reference model"),
 "C14": dict(cat="exploration", ref="DESIGN.md section 4 (C07 and C14) - weak fit, stated",
   text="Same world as C07: a help token inserted at a drawn position of a drawn level (optionally with another level made invalid on purpose: ancestors and the level itself must not be validated), a help token after the level's own `--` (ordinary data, bound verbatim), or a declared version flag in first position; stream fault plans; all three application policies, the expected end following the addressed command's effective policy; seeded, scheduled-pairs and session phases (one application object asked for help at different levels of a tree up to depth 6, then for the help of a command registered after those runs). Trees include commands declaring their own -h, hidden commands, indented multi-line long descriptions, white-space-only EnvVar strings, version strings with % or empty. Oracle: nothing runs, `Usage: <addressed path>` (names may contain %, dots, non-ASCII) and the long description on a healthy stream, exit 0 once under ExitOnError and return nil otherwise.",
   note="Sampling. Not generated (excluded by the property): help below an ancestor whose own arguments contain `--`.",
   tech="deterministic simulation: help/version short-circuit observed at the exit seam under stream fault plans and all error policies"),
 "C15": dict(cat="exploration", ref="DESIGN.md section 4 (C06 and C15)",
   text="Same worlds, sweep, histories and phases as C06 (25 200 structural combinations + seeded + scheduled pairs with a yielding custom value + multi-container + environment changed after the declarations); the SetByUser pointer is supplied wherever the declaration form has one and read inside the Action and after Run. Oracle: SetByUser == (the command line supplied at least one value), whatever the environment states, their timing and the default.",
   note="Sampling beyond the structural sweep; cases the library rejects are skipped and counted.",
   tech="deterministic simulation: environment-state fault injection, SetByUser checked against command-line presence"),
 "C19": dict(cat="exploration", ref="DESIGN.md section 4 (C19), Appendix B",
   text="The user-supplied flag.Value is a simulator-owned probe: one Go type per subset of {IsBoolFlag, Clear, IsDefault} (plus IsBoolFlag()==false), every call logged, Set failing on a drawn call (never / k-th call of the Run phase / during declaration) with one of seven error values (flag.ErrHelp, wrapped, io.EOF, empty text, texts equal to the library's own messages ...); as option and argument in template specs, declared through VarOpt/VarArg structs or convenience methods, with environment list states and 0..3 command-line tokens in every spelling (bare, folded, =value incl. ParseBool spellings, separate, attached, `--` as an operand), optionally with a second probe container, rarely with the value given 1 030..4 200 times (long command lines); a scheduled-pairs phase makes Set a scheduling point; the same application object is run a second time. Oracle over the Run-phase call history: Clear exactly once iff present and before any Set, then Set of exactly the bound tokens in order, nothing when no token is bound; a Set error => usage error, Action not run, no further Set.",
   note="Sampling beyond the sweep. Non-mutating calls (String, IsBoolFlag, IsDefault) are ignored wherever they occur; after a failing Set the other container's history only has to be a prefix of its protocol (map iteration order).",
   tech="deterministic simulation: instrumented user value types with injected Set failures, call-history oracle"),
 "C20": dict(cat="exploration", ref="DESIGN.md section 4 (C20), 3.5, 3.11",
   text="N = 2..6 independent applications drawn from all the other generators (plus twins sharing spec string and names but not types, and siblings sharing declarations - hence the host program's default slice objects - with another command line) are run alone (twice, each from pristine user-program state) and then together as simulated processes under a cooperative scheduler that parks every process at each instrumented Point, callback and stream write and draws every switch from the tape (uniform / PCT-like / coarse / serial-order strategies): each application's outcome together (end, exit code, panic identity, events, bound values, SetByUser, probe call logs, stderr transcript) must equal its solo outcome, and rebuilding and rerunning must give the same acceptance and values. Also: environment mutated between declaration and Run must not matter; for one world in eight every application is run alone in its own fresh OS process and all of them one after another in one more (order histories that replay); and a race-detector stage runs the same worlds on real parallel goroutines (-race, GOMAXPROCS 16). In the race stage the sequential reference runs keep the Point hook (and so the step budget) on; a world with an application that exceeds it is skipped. Quick 6 k scheduled worlds + 800 race-mode worlds; thorough 400 k + 60 k.",
   note="Sampling of schedules. The race-detector stage is not schedule-controlled (which interleaving occurs is up to the Go scheduler); it is sound because the detector reports only real races, and its replay re-runs the same world up to 5 x 400 times. Map iteration order is contained, not controlled: fields that depend on it (error text of a failing Set when several containers are filled) are excluded from the comparison.",
   tech="deterministic simulation: cooperative seeded scheduler over instrumented Points (non-interference vs solo runs) + race detector on free-running goroutines"),
}

NA = {
 "C01": "pure function of (spec, declarations, argv): language membership has no schedule, clock, fault or interleaving in it; environment backing is explicitly excluded by its quantifier. Not a simulation target (DESIGN.md sections 2 and 5).",
 "C02": "pure function of (spec, argv): bound values as a derivation; nothing to schedule, delay, fail or crash (DESIGN.md section 5).",
 "C04": "routing is a pure function of (command tree, argv); its 'exactly the addressed Action, once' core is exercised by C05's fault-free configuration and its rejection side by C07, but the property itself is not a simulation target (DESIGN.md section 5).",
 "C08": "well-formedness of a spec string and error positions: pure function of the string (DESIGN.md section 5).",
 "C09": "metamorphic relation between two argument vectors of one application in one world; environment backing excluded by its quantifier: pure (DESIGN.md section 5).",
 "C10": "spelling equivalence: pure metamorphic relation on argv (DESIGN.md section 5).",
 "C11": "commutation of adjacent options: pure metamorphic relation on argv (DESIGN.md section 5).",
 "C16": "implicit spec == explicit spec: two pure computations compared (DESIGN.md section 5).",
 "C17": "help text content is a pure function of the declarations; its 'configurations' are declaration fields, not ambient state (DESIGN.md section 5).",
 "C18": "declaration-time validation: pure function of the declaration sequence (DESIGN.md section 5).",
}

def main():
    checks = []
    for pid in sorted(CLAIMED):
        c = CLAIMED[pid]
        checks.append({
            "property_id": pid,
            "quick_cmd": f"./run.sh check {pid} --tier quick",
            "thorough_cmd": f"./run.sh check {pid} --tier thorough",
            "evidence_file": f"/verif/evidence/{pid}.json",
            "replay_cmd_template": "./run.sh replay {path}",
            "engine": "simcheck",
            "level_claimed": {"category": c["cat"], "text": c["text"], "design_ref": c["ref"]},
            "level_note": c["note"],
            "technique": c["tech"],
        })
    m = {
        "version": 1,
        "setup_cmd": "./setup.sh",
        "hooks": {
            "guard": "verif",
            "enable": "go build -tags verif (run.sh builds /verif/sim with `-tags verif` against /repo through a replace directive; internal/verifhook.Point is an empty function without the tag)",
            "baseline_off_cmd": BASELINE,
            "source_commits": hook_commits(),
            "add_only": True,
        },
        "engines": [{
            "name": "simcheck", "path": "/verif/sim",
            "serves_properties": sorted(CLAIMED),
            "kind_free_text": "deterministic simulator for a single-process library: simulated processes with an exit seam (Goexit), fault-injecting streams, owned environment, simulator-owned callbacks and value types, cooperative scheduler over instrumented Points; one choice tape per run (seeded or enumerated), tape shrinking, replay files re-executed in a fresh process",
        }],
        "checks": checks,
        "not_applicable": [{"property_id": k, "reason": v} for k, v in sorted(NA.items())],
        "notes": "VERIF_SEED seeds every choice (default 1); VERIF_TIER is honoured when --tier is absent; VERIF_WORKERS (default 16) and VERIF_WALL_S (wall-clock cap per check) are optional. Exit codes: 0 held, 1 VIOLATION, 2 build/harness trouble. Known findings and fixed defects: /verif/known_findings.json.",
    }
    json.dump(m, open(os.path.join(HERE, "MANIFEST.json"), "w"), indent=1)
    print("MANIFEST.json written:", len(checks), "checks,", len(NA), "not applicable")

if __name__ == "__main__":
    main()
