#!/usr/bin/env python3
"""Regenerates /verif/MANIFEST.json from the table below (kept in one place so that it stays valid)."""
import json, os, subprocess
HERE = os.path.dirname(os.path.dirname(os.path.abspath(__file__)))

BASELINE = "cd /repo && go test -mod=mod -json -vet=off -count=1 -timeout 25m ./..."

def hook_commits():
    try:
        out = subprocess.check_output(["git", "-C", "/repo", "log", "--format=%H %s"], text=True)
        return [l.split()[0] for l in out.splitlines() if l.split(" ", 1)[1].startswith("verif hooks:")]
    except Exception:
        return []

CLAIMED = {
 "C05": dict(cat="fault_enumeration", ref="DESIGN.md section 4 (C05), Appendix B",
   text="Every Before/Action/After on the addressed path is a simulator-owned fault point (absent / returns / panics(v) / Exit(n)) and the process-exit seam stops the simulated process at the call. "
        "The quick tier enumerates every outcome vector for path depth 0 and 1 (64 + 1 024) and samples 60 000 seeded runs up to depth 5; the thorough tier enumerates depth 0..2 completely (17 472 vectors) and samples 3 M seeded runs "
        "(depth, vector, panic value kinds incl. uncomparable values, exit codes, error policy, aliases, siblings, per-level tokens). Oracle: an executable reference model of the documented flow, independent of internal/flow; "
        "exact event sequence, exit-once with the right status, panic value identity. Complete within the enumerated bounds, sampled beyond.",
   note="Trusted: the Goexit exit seam as a model of os.Exit; the reference model (validated against the tree on all 13 104 vectors with an Action before the framework was built); Go runtime. Sampling beyond depth 2.",
   tech="deterministic simulation: seeded + exhaustive callback-fault injection with an exit seam, checked against an executable reference model of the flow"),
}

NA = {
 "C01": "pure function of (spec, declarations, argv): language membership has no schedule, clock, fault or interleaving in it; environment backing is explicitly excluded by its quantifier. Not a simulation target (DESIGN.md sections 2 and 5).",
 "C02": "pure function of (spec, argv): bound values as a derivation; nothing to schedule, delay, fail or crash (DESIGN.md section 5).",
 "C04": "routing is a pure function of (command tree, argv); its 'exactly the addressed Action, once' core is exercised by C05's fault-free configuration and its rejection side by C07, but the property itself is not a simulation target (DESIGN.md section 5).",
 "C08": "well-formedness of a spec string and error positions: pure function of the string (DESIGN.md section 5).",
 "C09": "metamorphic relation between two argument vectors of one application in one world; environment backing excluded by its quantifier: pure (DESIGN.md section 5).",
 "C10": "spelling equivalence: pure metamorphic relation on argv (DESIGN.md section 5).",
 "C11": "commutation of adjacent options: pure metamorphic relation on argv (DESIGN.md section 5).",
 "C16": "implicit spec == explicit spec: two pure computations compared (DESIGN.md section 5).",
 "C17": "help text content is a pure function of the declarations; its 'configurations' are declaration fields, not ambient state (DESIGN.md section 5).",
 "C18": "declaration-time validation: pure function of the declaration sequence (DESIGN.md section 5).",
}

def main():
    checks = []
    for pid in sorted(CLAIMED):
        c = CLAIMED[pid]
        checks.append({
            "property_id": pid,
            "quick_cmd": f"./run.sh check {pid} --tier quick",
            "thorough_cmd": f"./run.sh check {pid} --tier thorough",
            "evidence_file": f"/verif/evidence/{pid}.json",
            "replay_cmd_template": "./run.sh replay {path}",
            "engine": "simcheck",
            "level_claimed": {"category": c["cat"], "text": c["text"], "design_ref": c["ref"]},
            "level_note": c["note"],
            "technique": c["tech"],
        })
    m = {
        "version": 1,
        "setup_cmd": "./setup.sh",
        "hooks": {
            "guard": "verif",
            "enable": "go build -tags verif (run.sh builds /verif/sim with `-tags verif` against /repo through a replace directive; internal/verifhook.Point is an empty function without the tag)",
            "baseline_off_cmd": BASELINE,
            "source_commits": hook_commits(),
            "add_only": True,
        },
        "engines": [{
            "name": "simcheck", "path": "/verif/sim",
            "serves_properties": sorted(CLAIMED),
            "kind_free_text": "deterministic simulator for a single-process library: simulated processes with an exit seam (Goexit), fault-injecting streams, owned environment, simulator-owned callbacks and value types, cooperative scheduler over instrumented Points; one choice tape per run (seeded or enumerated), tape shrinking, replay files re-executed in a fresh process",
        }],
        "checks": checks,
        "not_applicable": [{"property_id": k, "reason": v} for k, v in sorted(NA.items())],
        "notes": "VERIF_SEED seeds every choice (default 1); VERIF_TIER is honoured when --tier is absent; VERIF_WORKERS (default 16) and VERIF_WALL_S (wall-clock cap per check) are optional. Exit codes: 0 held, 1 VIOLATION, 2 build/harness trouble. Known findings and fixed defects: /verif/known_findings.json.",
    }
    json.dump(m, open(os.path.join(HERE, "MANIFEST.json"), "w"), indent=1)
    print("MANIFEST.json written:", len(checks), "checks,", len(NA), "not applicable")

if __name__ == "__main__":
    main()
