#!/bin/sh
# usage: try_seed.sh <seed dir with patch.diff + demo_test.go> <property id> [more property ids...]
# Confirms a seeded change in a scratch worktree (suite passes, demo fails with it and passes without)
# and runs the quick checks of the given properties against it. Never touches /repo's working tree.
export GOFLAGS=-mod=mod GOPROXY=off GOSUMDB=off GOTOOLCHAIN=local
D=$(cd "$1" && pwd); shift
NAME=$(echo "$D" | tr '/' '_')
WT=/tmp/try/$NAME
rm -rf "$WT"; git -C /repo worktree prune
git -C /repo worktree add -q --detach "$WT" HEAD || exit 2
cleanup() { git -C /repo worktree remove --force "$WT" 2>/dev/null; rm -rf /tmp/try/out.$NAME; rm -f $(dirname ${VERIF_RUNNER:-/verif/run.sh})/.bin/simcheck.$(printf '%s' "$WT" | cksum | cut -d' ' -f1)*; }
trap cleanup EXIT
DEMO=$(ls "$D"/*_test.go 2>/dev/null | head -1)
if [ -n "$DEMO" ]; then
  cp "$DEMO" "$WT/zz_seed_demo_test.go"
  if (cd "$WT" && go test -vet=off -count=1 . >/tmp/try/$NAME.clean.log 2>&1); then echo "demo on clean tree: PASS (as required)"; else echo "demo on clean tree: FAIL (bad seed)"; tail -5 /tmp/try/$NAME.clean.log; fi
  rm "$WT/zz_seed_demo_test.go"
fi
if ! git -C "$WT" apply "$D/patch.diff"; then echo "patch does not apply"; exit 2; fi
if (cd "$WT" && go build ./... && go test -vet=off -count=1 ./... >/tmp/try/$NAME.suite.log 2>&1); then echo "suite with change: PASS (as required)"; else echo "suite with change: FAIL (bad seed)"; tail -5 /tmp/try/$NAME.suite.log; fi
if [ -n "$DEMO" ]; then
  cp "$DEMO" "$WT/zz_seed_demo_test.go"
  if (cd "$WT" && go test -vet=off -count=1 . >/tmp/try/$NAME.demo.log 2>&1); then echo "demo with change: PASS (bad seed)"; else echo "demo with change: FAIL (as required)"; fi
  rm "$WT/zz_seed_demo_test.go"
fi
export VERIF_OUT=/tmp/try/out.$NAME; mkdir -p $VERIF_OUT
for P in "$@"; do
  VERIF_REPO="$WT" ${VERIF_RUNNER:-/verif/run.sh} check "$P" --tier ${TIER:-quick} > /tmp/try/$NAME.$P.log 2>&1
  echo "check $P: exit $? : $(grep -c '^VIOLATION' /tmp/try/$NAME.$P.log) VIOLATION lines; $(grep -m1 '^violation' /tmp/try/$NAME.$P.log | cut -c1-200)"
done
