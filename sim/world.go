package main

import (
	"bytes"
	"errors"
	"fmt"
	"io"
	"os"
	"runtime"
	"runtime/debug"
	"strconv"
	"sync"
	"time"

	cli "github.com/jawher/mow.cli"
)

// ---------------------------------------------------------------------------
// Simulated processes

type EndKind int

const (
	EndNone     EndKind = iota
	EndReturned         // Run returned (Err may be nil or not)
	EndExited           // the exit seam was called: the process stopped there
	EndPanicked         // Run panicked with PanicVal
	EndBudget           // the simulator unwound the process: step or depth budget exceeded
)

func (k EndKind) String() string {
	switch k {
	case EndReturned:
		return "returned"
	case EndExited:
		return "exited"
	case EndPanicked:
		return "panicked"
	case EndBudget:
		return "budget"
	}
	return "none"
}

type StreamKind int

const (
	StreamHealthy StreamKind = iota
	StreamClosed
	StreamFailAfter
	StreamShort
	StreamStuck // accepts N bytes, then every write reports a short write of zero bytes (a full, capped buffer)
)

type StreamPlan struct {
	Kind StreamKind
	N    int // FailAfter: bytes accepted before failing; Short: max bytes per call
}

func (s StreamPlan) String() string {
	switch s.Kind {
	case StreamClosed:
		return "closed"
	case StreamFailAfter:
		return fmt.Sprintf("fail_after(%d)", s.N)
	case StreamShort:
		return fmt.Sprintf("short(%d)", s.N)
	case StreamStuck:
		return fmt.Sprintf("stuck_after(%d)", s.N)
	}
	return "healthy"
}

// Proc is one simulated process: one build-and-run of an application on its own goroutine.
type Proc struct {
	ID int

	Events    []string // callback events, in order
	exited    bool
	exitIdx   int // len(Events) when the exit seam was called
	ExitCalls int // calls of the exit seam (only the first one counts; later ones can only come from deferred code)

	End      EndKind
	Err      error
	ExitCode int
	PanicVal interface{}
	Budget   string // which budget was exceeded

	Stream      StreamPlan
	Stderr      bytes.Buffer // bytes accepted by the error stream
	Stdout      bytes.Buffer
	errAccepted int
	WriteFaults int // writes that returned an error

	Steps        int64
	StepBudget   int64
	InputTokens  int // length of the argument vector when it is long: the frame-local loop budget grows with it
	loopRun      int64
	loopMinDepth int
	loopMaxDepth int
	compiling    bool
	compileStart int64
	MaxDepthOK   bool

	Raised map[string]interface{} // event name -> the value that callback raised (panic value), for identity checks

	gid int64 // goroutine id (race mode only)
}

func NewProc(id int) *Proc {
	p := &Proc{ID: id, StepBudget: defaultStepBudget, Raised: map[string]interface{}{}}
	if liftBudgets {
		p.StepBudget = 1 << 62
	}
	return p
}

// SetInputSize tells the budgets how long the argument vector is: what they bound is polynomial in the size of the
// input (the option matchers look ahead through the remaining arguments: quadratic), so for command lines of
// thousands of tokens the frame-local loop budget grows linearly and the step budget quadratically with it.
func (p *Proc) SetInputSize(tokens int) {
	p.InputTokens = tokens
	if !liftBudgets && tokens > 64 {
		p.StepBudget = defaultStepBudget + 20*int64(tokens)*int64(tokens)
	}
}

const defaultStepBudget = 2_000_000
const depthBudget = 100_000
const stuckLoopBudget = 200_000
const compileBudget = 1_000_000

var compileSites = map[string]bool{"cmd.doInit": true, "cmd.declared": true, "cmd.mkOpt": true, "cmd.mkArg": true, "lexer.loop": true,
	"parser.seq": true, "parser.choice": true, "parser.atom": true, "fsm.simplify": true, "fsm.simplifySelf": true, "fsm.sort": true}

var depthSample = make([]uintptr, 8192)

var loopSites = map[string]bool{"lexer.loop": true, "parser.seq": true, "parser.choice": true, "matcher.options.loop": true,
	"matcher.opt.loop": true, "matcher.short.loop": true, "fsm.simplifySelf": true}

// Emit records a callback event.
func (p *Proc) Emit(ev string) {
	p.Events = append(p.Events, ev)
	if tracing {
		traceAdd(p.ID, ev)
	}
}

// Execution trace digest (self-test of determinism only): every Point, callback event, exit and
// stream write of every simulated process, in global order.
var lastBeat = time.Now()

var (
	tracing bool
	trace   uint64
)

func traceAdd(proc int, what string) {
	trace = mix(trace, uint64(proc), fnv64(what))
}

// Observed returns the events that happened before the process stopped: whatever deferred
// code recorded after the exit seam is discarded, because os.Exit runs no deferred function.
func (p *Proc) Observed() []string {
	if p.exited && p.exitIdx < len(p.Events) {
		return p.Events[:p.exitIdx]
	}
	return p.Events
}

type budgetSentinel struct{ what string }

// ---------------------------------------------------------------------------
// Who is running. Outside the race mode exactly one simulated process runs at any
// instant (the cooperative scheduler guarantees it), so a single variable is enough.

var (
	cur      *Proc
	raceMode bool // free-running goroutines under the race detector: no Point hook, no yields
	gidMode  bool // attribute events by goroutine id (scheduled worlds and race mode)
	raceMu   sync.Mutex
	raceMap  = map[int64]*Proc{}
)

func goid() int64 {
	var buf [64]byte
	n := runtime.Stack(buf[:], false)
	// "goroutine 123 ["
	s := buf[len("goroutine "):n]
	i := bytes.IndexByte(s, ' ')
	id, _ := strconv.ParseInt(string(s[:i]), 10, 64)
	return id
}

func current() *Proc {
	if !gidMode {
		return cur
	}
	g := goid()
	raceMu.Lock()
	p := raceMap[g]
	raceMu.Unlock()
	return p
}

// ---------------------------------------------------------------------------
// Seams

var (
	siteCounts   = map[string]int64{}
	totalSteps   int64
	maxSteps     int64
	theSched     *Sched
	seamsOnce    sync.Once
	depthScratch = make([]uintptr, 1)
)

func installSeams() {
	seamsOnce.Do(func() {
		debug.SetMaxStack(256 << 20)
		cli.VerifSetExit(exitSeam)
		cli.VerifSetStreams(simWriter{0}, simWriter{1})
		if !raceMode {
			cli.VerifSetPoint(pointHook)
		}
		if !gidMode {
			specMismatchText()
		}
	})
}

func exitSeam(code int) {
	p := current()
	if p == nil {
		panic(fmt.Sprintf("harness: exit seam called outside a simulated process (code %d)", code))
	}
	p.ExitCalls++
	if tracing {
		traceAdd(p.ID, "exit")
	}
	if !p.exited {
		p.exited = true
		p.exitIdx = len(p.Events)
		p.ExitCode = code
	}
	runtime.Goexit()
}

func pointHook(site string) {
	p := cur
	if gidMode {
		p = current()
	}
	if p == nil {
		return
	}
	p.Steps++
	// How many "fsm.fill" Points a run passes depends on Go's map iteration order when a Set fails
	// (which container is filled first), the one source of nondeterminism the simulator cannot own:
	// that site counts as a step but is neither traced nor a scheduling point, so that schedules and
	// traces stay a function of the tape alone.
	mapOrdered := site == "fsm.fill"
	if s := theSched; s == nil || !s.free {
		siteCounts[site]++
		if tracing && !mapOrdered {
			traceAdd(p.ID, site)
		}
	}
	// Liveness budgets. Three of them are sound on their own, because what they bound is polynomial in
	// the size of the input for any sensible implementation: (a) consecutive Points of frame-local loops
	// (lexer, parser and matcher loops, the shortcut elimination loop) with nothing else in between,
	// (b) the steps of one spec compilation, (c) the call depth. The fourth, the total number of steps,
	// can legitimately be exceeded by the matcher's exponential backtracking and only nominates.
	if loopSites[site] {
		p.loopRun++
		if p.loopRun&255 == 0 {
			// A frame-local loop that never ends keeps the call stack where it is; a backtracking search whose
			// recursion simply is not instrumented (a refactoring may drop Points) moves up and down.
			d := runtime.Callers(0, depthSample)
			if p.loopRun == 256 || d < p.loopMinDepth {
				p.loopMinDepth = d
			}
			if p.loopRun == 256 || d > p.loopMaxDepth {
				p.loopMaxDepth = d
			}
		}
		if p.loopRun > stuckLoopBudget*int64(1+p.InputTokens/32) && p.loopMaxDepth-p.loopMinDepth <= 3 {
			panic(&budgetSentinel{"stuck-loop"})
		}
	} else {
		p.loopRun = 0
	}
	if site == "cmd.doInit" {
		p.compiling, p.compileStart = true, p.Steps
	} else if p.compiling && !compileSites[site] {
		p.compiling = false // whatever comes after the compilation of a spec ends it
	}
	if p.compiling && p.Steps-p.compileStart > compileBudget {
		panic(&budgetSentinel{"compile"})
	}
	if p.Steps > p.StepBudget {
		panic(&budgetSentinel{"steps"})
	}
	if p.Steps&1023 == 0 {
		if runtime.Callers(depthBudget, depthScratch) > 0 {
			panic(&budgetSentinel{"depth"})
		}
		if liftBudgets && time.Since(lastBeat) > time.Second {
			// by the wall clock, not by steps: a scheduled step costs a goroutine hand-off
			lastBeat = time.Now()
			phase := "match"
			if p.compiling {
				phase = "compile"
			}
			fmt.Fprintf(os.Stderr, "HEARTBEAT steps=%d phase=%s\n", p.Steps, phase)
		}
	}
	if s := theSched; s != nil && !mapOrdered {
		s.yield(p, site)
	}
}

type simWriter struct{ stream int }

var errStreamClosed = errors.New("write: broken pipe (simulated)")

func (w simWriter) Write(b []byte) (int, error) {
	p := current()
	if p == nil {
		return len(b), nil
	}
	if s := theSched; s != nil && !raceMode {
		s.yield(p, "stream.write")
	}
	buf := &p.Stderr
	if w.stream == 0 {
		buf = &p.Stdout
	}
	switch p.Stream.Kind {
	case StreamClosed:
		p.WriteFaults++
		return 0, errStreamClosed
	case StreamFailAfter:
		room := p.Stream.N - p.errAccepted
		if room <= 0 {
			p.WriteFaults++
			return 0, errStreamClosed
		}
		if len(b) > room {
			buf.Write(b[:room])
			p.errAccepted += room
			p.WriteFaults++
			return room, errStreamClosed
		}
		buf.Write(b)
		p.errAccepted += len(b)
		return len(b), nil
	case StreamStuck:
		room := p.Stream.N - p.errAccepted
		if room <= 0 {
			p.WriteFaults++
			return 0, io.ErrShortWrite
		}
		if len(b) > room {
			buf.Write(b[:room])
			p.errAccepted += room
			p.WriteFaults++
			return room, io.ErrShortWrite
		}
		buf.Write(b)
		p.errAccepted += len(b)
		return len(b), nil
	case StreamShort:
		if len(b) > p.Stream.N {
			buf.Write(b[:p.Stream.N])
			p.WriteFaults++
			return p.Stream.N, io.ErrShortWrite
		}
		buf.Write(b)
		return len(b), nil
	}
	buf.Write(b)
	return len(b), nil
}

// ---------------------------------------------------------------------------
// Running a process

// RunProc executes fn as the body of simulated process p on its own goroutine and
// classifies how it ended. In unscheduled mode the caller blocks until the end.
func RunProc(p *Proc, fn func() error) {
	done := make(chan struct{})
	go procBody(p, fn, done)
	<-done
}

func procBody(p *Proc, fn func() error, done chan struct{}) {
	defer close(done)
	if gidMode {
		g := goid()
		p.gid = g
		raceMu.Lock()
		raceMap[g] = p
		raceMu.Unlock()
		defer func() {
			raceMu.Lock()
			delete(raceMap, g)
			raceMu.Unlock()
		}()
	} else if theSched == nil {
		cur = p
		defer func() { cur = nil }()
	}
	returned := false
	defer func() {
		raceMu.Lock()
		totalSteps += p.Steps
		if p.Steps > maxSteps {
			maxSteps = p.Steps
		}
		raceMu.Unlock()
		if returned {
			return
		}
		v := recover()
		if p.exited {
			// Goexit from the exit seam (recover returned nil), or a panic raised by deferred code after
			// the exit: the process was already gone at that point.
			p.End = EndExited
			return
		}
		if b, ok := v.(*budgetSentinel); ok {
			p.End = EndBudget
			p.Budget = b.what
			return
		}
		p.End = EndPanicked
		p.PanicVal = v
	}()
	err := fn()
	returned = true
	if p.exited {
		// cannot happen with a Goexit seam; kept so that a returning seam would be noticed
		p.End = EndExited
		return
	}
	p.End = EndReturned
	p.Err = err
}

// ---------------------------------------------------------------------------
// Environment. The simulator owns the names VFSIM_0 .. VFSIM_<envPool-1> and is their
// only writer; it writes only while no simulated process runs (or all are parked).

const envPool = 8

// Odd-numbered variables have lower-case names, and their upper-case twins - which belong to nobody - always hold
// a value that would be valid for every type: a library must read the variables it was told to read, nothing else.
func envName(k int) string {
	if k%2 == 1 {
		return "vfsim_" + strconv.Itoa(k)
	}
	return "VFSIM_" + strconv.Itoa(k)
}

// EnvState is the content of the owned variables: nil = unset.
type EnvState [envPool]*string

func (e *EnvState) Set(k int, v string) { s := v; e[k] = &s }
func (e *EnvState) Unset(k int)         { e[k] = nil }
func (e EnvState) Get(k int) (string, bool) {
	if e[k] == nil {
		return "", false
	}
	return *e[k], true
}

func (e EnvState) Apply() {
	for k := 1; k < envPool; k += 2 {
		os.Setenv("VFSIM_"+strconv.Itoa(k), "1")
	}
	for k := 0; k < envPool; k++ {
		if e[k] == nil {
			os.Unsetenv(envName(k))
		} else {
			os.Setenv(envName(k), *e[k])
		}
	}
}

func (e EnvState) Describe() map[string]string {
	m := map[string]string{}
	for k := 0; k < envPool; k++ {
		if e[k] != nil {
			m[envName(k)] = *e[k]
		}
	}
	return m
}
