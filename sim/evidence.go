package main

import (
	"os"
	"path/filepath"
	"sort"
)

func levelOf(id string) string {
	if id == "C05" {
		return "fault_enumeration"
	}
	return "exploration"
}

var realVsStub = map[string][]string{
	"real": {"github.com/jawher/mow.cli and all its internal packages from the working tree (built with -tags verif)", "Go runtime", "os.Getenv/Setenv", "text/tabwriter", "fmt", "strconv"},
	"simulated": {"process exit (exit seam: record + runtime.Goexit in place of os.Exit)", "stdout/stderr streams (SimWriter with fault plans)",
		"content and timeline of the environment variables VFSIM_*", "every Before/Action/After callback, CmdInitializer and user flag.Value", "which simulated process proceeds at each Point (scheduled worlds only)"},
	"absent_from_the_system": {"clocks", "timers", "network", "disk", "allocation failure"},
}

func writeEvidence(p Property, tier string, seed uint64, st *Stats, violations int, wall float64, workers int) error {
	counters := map[string]int64{}
	for k, v := range st.Counters {
		counters[k] = v
	}
	faults := map[string]int64{}
	reach := map[string]int64{}
	for k, v := range counters {
		if len(k) > 6 && k[:6] == "fired." {
			faults[k[6:]] = v
		}
		if len(k) > 6 && k[:6] == "reach." {
			reach[k[6:]] = v
		}
	}
	samples := st.Samples
	if len(samples) == 0 {
		samples = []interface{}{"no sample recorded"}
	}
	phases := []map[string]interface{}{}
	exhaustive := false
	for _, ph := range p.Phases(tier) {
		phases = append(phases, map[string]interface{}{"name": ph.Name, "cases": ph.Count, "enumerated": ph.Enum(), "params": ph.P})
		if ph.Enum() {
			exhaustive = true
		}
	}
	runsPerHour := 0.0
	if wall > 0 {
		runsPerHour = float64(st.Evals) / wall * 3600
	}
	known := []string{}
	for k := range st.Known {
		known = append(known, k)
	}
	sort.Strings(known)
	cov := map[string]interface{}{
		"evaluations":                          st.Evals,
		"distinct_nontrivial":                  len(st.distinct),
		"rule":                                 p.Rule(),
		"samples":                              samples,
		"phases":                               phases,
		"enumerated_phases_complete":           exhaustive && !st.Cut,
		"cut_by_wall_clock_cap":                st.Cut,
		"simulated_runs_per_hour":              runsPerHour,
		"seeds":                                "one VERIF_SEED; case i of phase k uses the tape seeded with mix(VERIF_SEED, property, k, i)",
		"simulated_time_steps_total":           st.TotalSteps,
		"simulated_time_steps_max_per_process": st.MaxSteps,
		"simulated_time_note":                  "the system has no clock; simulated time is counted in instrumented Points passed",
		"points_by_site":                       st.Sites,
		"faults_fired":                         faults,
		"reach":                                reach,
		"counters":                             counters,
		"known_findings_hit":                   st.Known,
		"known_findings_examples":              st.KnownEx,
		"components":                           realVsStub,
		"workers":                              workers,
	}
	measures := map[string]int{}
	for name, m := range st.sets {
		measures[name] = len(m)
	}
	if len(measures) > 0 {
		cov["distinct_by_other_measures"] = measures
	}
	if raceInfo != nil {
		cov["race_stage"] = raceInfo
	}
	ev := map[string]interface{}{
		"property_id": p.ID(),
		"tier":        tier,
		"seed":        int64(seed),
		"level":       levelOf(p.ID()),
		"coverage":    cov,
		"assumptions": []string{
			"sampling, not proof: a clean batch is evidence only (enumerated phases are complete within their stated bounds)",
			"the exit seam models os.Exit faithfully (the goroutine stops at the call; deferred code is not observed)",
			"Go map iteration order is not controlled by the simulator; oracles read per-container observations only",
		},
		"wall_s":     wall,
		"violations": violations,
	}
	path := filepath.Join(outHome(), "evidence", p.ID()+".json")
	return os.WriteFile(path, []byte(mustJSON(ev)), 0o644)
}
