package main

// The choice tape: the single source of every decision a simulated run makes.
//
// In generation mode Draw(n) returns the next output of a SplitMix64 generator
// reduced mod n, and records it. In replay mode it reads the recorded values
// (reduced mod n; zero when the tape is exhausted). A run is therefore a pure
// function of (tape, code). Shrinking works on the recorded tape only.

type Tape struct {
	state  uint64   // generator state (generation mode)
	replay bool     // replay mode: read from in
	in     []uint64 // values to replay
	pos    int
	tail   bool     // replay mode: once the recorded values are exhausted, continue with the generator
	Rec    []uint64 // values handed out (already reduced)
}

func splitmix(x *uint64) uint64 {
	*x += 0x9E3779B97F4A7C15
	z := *x
	z = (z ^ (z >> 30)) * 0xBF58476D1CE4E5B9
	z = (z ^ (z >> 27)) * 0x94D049BB133111EB
	return z ^ (z >> 31)
}

func mix(vals ...uint64) uint64 {
	var s uint64 = 0x243F6A8885A308D3
	for _, v := range vals {
		s ^= v
		splitmix(&s)
		s = splitmix(&s)
	}
	return s
}

func fnv64(s string) uint64 {
	var h uint64 = 14695981039346656037
	for i := 0; i < len(s); i++ {
		h ^= uint64(s[i])
		h *= 1099511628211
	}
	return h
}

// NewTape returns a generating tape seeded with seed.
func NewTape(seed uint64) *Tape { return &Tape{state: seed} }

// ReplayTape returns a tape that replays the given values.
func ReplayTape(vals []uint64) *Tape {
	return &Tape{replay: true, in: vals}
}

// ReplayThenSeed replays vals and then continues with a generator seeded with seed: used by
// enumerated phases whose structural digits are swept while the remaining choices are seeded.
func ReplayThenSeed(vals []uint64, seed uint64) *Tape {
	return &Tape{replay: true, in: vals, tail: true, state: seed}
}

// Draw returns a value in [0,n). n<=1 returns 0 and still consumes a slot so that
// tapes stay aligned when a bound shrinks to 1.
func (t *Tape) Draw(n int) int {
	var v uint64
	if t.replay {
		if t.pos < len(t.in) {
			v = t.in[t.pos]
		} else if t.tail {
			v = splitmix(&t.state)
		}
		t.pos++
	} else {
		v = splitmix(&t.state)
	}
	if n <= 1 {
		v = 0
	} else {
		v %= uint64(n)
	}
	t.Rec = append(t.Rec, v)
	return int(v)
}

// Bool returns true with probability num/den. Drawn so that 0 means false (simpler).
func (t *Tape) Bool(num, den int) bool {
	return t.Draw(den) >= den-num
}

// Range returns a value in [lo,hi].
func (t *Tape) Range(lo, hi int) int {
	if hi <= lo {
		t.Draw(1)
		return lo
	}
	return lo + t.Draw(hi-lo+1)
}

// Pick returns one of the strings.
func (t *Tape) Pick(xs []string) string { return xs[t.Draw(len(xs))] }

// Weighted draws an index with the given weights.
func (t *Tape) Weighted(ws ...int) int {
	sum := 0
	for _, w := range ws {
		sum += w
	}
	v := t.Draw(sum)
	for i, w := range ws {
		if v < w {
			return i
		}
		v -= w
	}
	return len(ws) - 1
}

// Perm returns a permutation of 0..n-1 (identity when all draws are zero).
func (t *Tape) Perm(n int) []int {
	p := make([]int, n)
	for i := range p {
		p[i] = i
	}
	for i := 0; i < n-1; i++ {
		j := i + t.Draw(n-i)
		p[i], p[j] = p[j], p[i]
	}
	return p
}

// ---------------------------------------------------------------------------
// Shrinking

// Shrink minimises a failing tape. fails(tape) must re-execute the case on a replay
// tape and report whether the same violation class still occurs; it returns the
// tape actually consumed (Rec) so that unused tail values are dropped. Bounded by
// maxExec re-executions.
func Shrink(start []uint64, maxExec int, fails func(vals []uint64) (bool, []uint64)) ([]uint64, int) {
	best := append([]uint64(nil), start...)
	execs := 0
	try := func(c []uint64) bool {
		if execs >= maxExec {
			return false
		}
		execs++
		ok, used := fails(c)
		if !ok {
			return false
		}
		if len(used) < len(c) {
			c = used
		}
		// accept only if not larger (lexicographic on length then values)
		if tapeLess(c, best) {
			best = append([]uint64(nil), c...)
			return true
		}
		return false
	}
	// trim trailing zeros is implicit: replay yields zeros when exhausted
	improved := true
	for improved && execs < maxExec {
		improved = false
		// 1. delete blocks
		for size := len(best) / 2; size >= 1; size /= 2 {
			for i := 0; i+size <= len(best) && execs < maxExec; {
				c := append(append([]uint64(nil), best[:i]...), best[i+size:]...)
				if try(c) {
					improved = true
				} else {
					i += size
				}
			}
		}
		// 2. zero blocks
		for size := len(best) / 2; size >= 1; size /= 2 {
			for i := 0; i+size <= len(best) && execs < maxExec; i += size {
				allZero := true
				for _, v := range best[i : i+size] {
					if v != 0 {
						allZero = false
					}
				}
				if allZero {
					continue
				}
				c := append([]uint64(nil), best...)
				for k := i; k < i+size; k++ {
					c[k] = 0
				}
				if try(c) {
					improved = true
				}
			}
		}
		// 3. lower single values
		for i := 0; i < len(best) && execs < maxExec; i++ {
			for best[i] > 0 && execs < maxExec {
				c := append([]uint64(nil), best...)
				c[i] = best[i] / 2
				if try(c) {
					improved = true
					continue
				}
				c = append([]uint64(nil), best...)
				c[i] = best[i] - 1
				if try(c) {
					improved = true
					continue
				}
				break
			}
		}
	}
	// drop trailing zeros: they are what an exhausted tape yields anyway
	for len(best) > 0 && best[len(best)-1] == 0 {
		best = best[:len(best)-1]
	}
	return best, execs
}

func tapeLess(a, b []uint64) bool {
	if len(a) != len(b) {
		return len(a) < len(b)
	}
	for i := range a {
		if a[i] != b[i] {
			return a[i] < b[i]
		}
	}
	return false
}
