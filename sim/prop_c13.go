package main

import (
	"flag"
	"fmt"
	"strings"
)

// C13 — typed values agree with strconv; unparsable values are usage errors.
//
// Weak fit, stated in DESIGN.md: token -> value is a pure function; what makes this a
// simulation target is the delivery route (command line in every spelling, or the
// simulator-owned environment) and the rejection history (unparsable command-line token =>
// usage error and the Action never runs; unparsable environment token => falls through).

var edgeTokens = []string{
	"0", "1", "-1", "+1", "007", "-0", "+0", "9223372036854775807", "9223372036854775808", "-9223372036854775808", "-9223372036854775809",
	"1e3", "1E3", "1.5", "-1.5", ".5", "5.", "1e400", "-1e400", "1e-400", "4.9e-324", "1.7976931348623157e308", "1.7976931348623159e308",
	"0x10", "0X1F", "0b11", "0o7", "1_000", "0x1p-2", "0x1.8p1", "0x_1p0", "inf", "-inf", "+Inf", "Infinity", "-Infinity", "infinit", "nan", "NaN", "-nan", "+NaN",
	"true", "false", "TRUE", "True", "t", "f", "T", "F", "tRuE", "yes", "no", "on", "off", "1 ", " 1", "1\t", "\n1", "٣", "１", "²", "", "a", "é", "\xff\xfe",
	"1,2", "-", "=1", "1=2", "0.1e+1_0", "0x", "1e", "e1", "..", "1.2.3", "NaNx", "Inf ", "+", "18446744073709551616", "00000000000000000001", "1e+", "0e0", "-.5e-3",
	"\"42\"", "\"1.5\"", "\"true\"", "\"abc\"", "\"\"", "\"", "'7'", "\\-1", "\\7",
	"12\r", "1.5\r\n", "true\n", "abc\r", "7\n", "\r", "false\r\n",
	"truE", "FALSE", "False", "fALSE", "0.0", "1.0", "١", "0x7fffffffffffffff", "1__0", "_1", "1_", "١٢٣", "１２", " ", "\t", "x y", "a=b=c", "-x", "--long", "--",
}

var deliveryNames = []string{"--opt=TOKEN", "-o=TOKEN", "-oTOKEN", "-o TOKEN", "--opt TOKEN", "positional", "env scalar", "env list element"}

type c13Case struct {
	App      *AppDecl
	Decl     *Decl
	Token    string
	Lead     string // list kinds: a valid token given before the edge token ("" = none)
	LeadN    int    // how many times the lead is given (long command lines: 1000s of repeated tokens)
	Trail    string // option routes: a valid token given after the edge token ("" = none); a scalar keeps the last one
	HasTrail bool
	Delivery int
	Argv     []string
	Env      EnvState
}

func (c *c13Case) Describe() interface{} {
	return map[string]interface{}{"decl": c.Decl.Describe(), "spec": c.App.Root.Spec, "token": c.Token, "delivery": deliveryNames[c.Delivery], "argv": shortArgv(c.Argv), "env": c.Env.Describe(), "lead": c.Lead, "lead_times": c.LeadN, "trail": c.Trail, "argv_len": len(c.Argv)}
}

type c13Prop struct{}

func init() { register(c13Prop{}) }

func (c13Prop) ID() string { return "C13" }

func (c13Prop) Rule() string {
	return "case = one edge-case token (pool of numeric edge cases, signs, exponents, hex/underscore forms, inf/nan, 64-bit boundaries, blanks, unicode digits, invalid UTF-8, the empty string; plus byte-level mutations) " +
		"x the 7 built-in types x option/argument x delivery route (--opt=T, -o=T, -oT, -o T, --opt T, positional incl. after `--`, environment scalar, environment list element); " +
		"distinct = distinct (type, opt/arg, route, token); non-trivial = every case (each carries an edge token)."
}

func (c13Prop) Phases(tier string) []PhaseCfg {
	n := 60_000
	if tier == "thorough" {
		n = 20_000_000
	}
	return []PhaseCfg{{Name: "seeded", Count: n}, {Name: "multi-container", Count: n / 3, P: map[string]int{"multi": 1}},
		{Name: "scheduled-pairs", Count: n / 20, P: map[string]int{"pair": 1}}}
}

func mutateToken(t *Tape, s string) string {
	b := []byte(s)
	alphabet := []byte("0123456789+-.eExXpP_ \tinfINFnaNtruefalsTRUEFALS,=é")
	switch t.Draw(4) {
	case 0:
		if len(b) > 0 {
			i := t.Draw(len(b))
			b = append(b[:i], b[i+1:]...)
		}
	case 1:
		i := t.Draw(len(b) + 1)
		ch := alphabet[t.Draw(len(alphabet))]
		b = append(b[:i], append([]byte{ch}, b[i:]...)...)
	case 2:
		if len(b) > 0 {
			b[t.Draw(len(b))] = alphabet[t.Draw(len(alphabet))]
		}
	case 3:
		b = append(b, b...)
	}
	out := strings.ReplaceAll(string(b), "\x00", "")
	return out
}

func (c13Prop) Gen(t *Tape, ph *PhaseCfg) Case {
	if ph != nil && ph.P["pair"] == 1 {
		g := genPair(t, func() Case { return genMultiOpt(t, true) })
		g.MapOrder = true
		return g
	}
	if ph != nil && ph.P["multi"] == 1 {
		// several typed containers at once (lists may share one default slice object of the host program):
		// every one of them must hold exactly the parse of the tokens it was given
		return genMultiMid(t)
	}
	c := &c13Case{}
	kind := ValKind(t.Draw(7))
	isArg := t.Draw(2) == 1
	tok := edgeTokens[t.Draw(len(edgeTokens))]
	if t.Draw(4) == 0 {
		tok = mutateToken(t, tok)
	}
	c.Token = tok
	d := &Decl{IsArg: isArg, Kind: kind}
	if isArg {
		d.Name = "X"
	} else {
		d.Name = "o opt"
	}
	ek := elemKind(kind)
	if t.Draw(2) == 1 {
		if kind.IsList() {
			d.DefList = []string{t.Pick(validPool[ek])}
		} else {
			d.Def = t.Pick(validPool[ek])
		}
	}
	c.Decl = d
	d.PtrForm = t.Draw(2) == 1
	shortForm := t.Draw(3) == 0
	// delivery route, then fall back to the next legal one
	legal := func(r int) bool {
		switch r {
		case 0: // --opt=TOKEN
			return !isArg && tok != ""
		case 1: // -o=TOKEN
			return !isArg && tok != ""
		case 2: // -oTOKEN
			return !isArg && ek != KBool && tok != "" && !strings.HasPrefix(tok, "=")
		case 3, 4: // separate
			return !isArg && ek != KBool && !strings.HasPrefix(tok, "-")
		case 5:
			return isArg
		case 6:
			return !kind.IsList()
		case 7:
			return kind.IsList() && !strings.Contains(tok, ",")
		}
		return false
	}
	r := t.Draw(8)
	for !legal(r) {
		r = (r + 1) % 8
	}
	c.Delivery = r
	if r < 6 && shortForm {
		d.Short, d.NoSBU = true, true
	}
	spec := ""
	argv := []string{"app"}
	if kind.IsList() && r < 6 && t.Draw(2) == 1 {
		c.Lead = t.Pick(validPool[ek])
		if ek == KString {
			c.Lead = "lead"
		}
		c.LeadN = 1
		if t.Draw(400) == 0 {
			// a long command line: the repetition is matched token by token, thousands of levels deep
			c.LeadN = []int{1030, 2100, 4200, 6500}[t.Draw(4)]
		}
	}
	switch {
	case r <= 4:
		if t.Draw(3) == 0 {
			c.HasTrail = true
			c.Trail = t.Pick(validPool[ek])
			if ek == KString {
				c.Trail = "trail"
			}
		}
		if kind.IsList() {
			spec = "[-o]..."
		} else if c.HasTrail {
			spec = []string{"[-o]...", "-o...", "[OPTIONS]"}[t.Draw(3)]
		} else {
			spec = []string{"[-o]", "-o", "[OPTIONS]"}[t.Draw(3)]
		}
		for i := 0; i < c.LeadN && c.Lead != ""; i++ {
			argv = append(argv, "--opt="+c.Lead)
		}
		switch r {
		case 0:
			argv = append(argv, "--opt="+tok)
		case 1:
			argv = append(argv, "-o="+tok)
		case 2:
			argv = append(argv, "-o"+tok)
		case 3:
			argv = append(argv, "-o", tok)
		case 4:
			argv = append(argv, "--opt", tok)
		}
		if c.HasTrail {
			argv = append(argv, "--opt="+c.Trail)
		}
	case r == 5:
		if kind.IsList() {
			spec = "X..."
		} else {
			spec = "X"
		}
		if t.Draw(3) == 0 {
			spec = "-- " + spec // a `--` written in the spec: as if one were present on the command line
		}
		toks := []string{}
		for i := 0; i < c.LeadN && c.Lead != ""; i++ {
			toks = append(toks, c.Lead)
		}
		toks = append(toks, tok)
		dash := false
		for _, x := range toks {
			if strings.HasPrefix(x, "-") {
				dash = true
			}
		}
		if dash || t.Draw(4) == 0 {
			argv = append(argv, "--")
		}
		argv = append(argv, toks...)
	default:
		// environment delivery: no command-line value
		d.EnvVars = []int{0}
		// what happens to a non-empty list default when the variable is invalid is C06's subject (KF-C06-1), not this property's
		d.DefList = nil
		content := tok
		if r == 7 {
			pad := func() string { return []string{"", " ", "\t "}[t.Draw(3)] }
			parts := []string{}
			if t.Draw(2) == 1 {
				parts = append(parts, pad()+t.Pick(validPool[ek])+pad())
			}
			parts = append(parts, pad()+tok+pad())
			content = strings.Join(parts, ",")
		}
		c.Env.Set(0, content)
		if isArg {
			spec = []string{"[X]", "[X...]"}[t.Draw(2)]
		} else {
			spec = []string{"[-o]", "[OPTIONS]", "[-o]..."}[t.Draw(3)]
		}
	}
	c.Argv = argv
	root := &CmdDecl{Name: "app", Spec: spec, Decls: []*Decl{d}, Action: CB{Kind: CBReturn}}
	if t.Draw(5) == 0 {
		// sub-commands that are never addressed, declared with an alias list as a help text prints it
		root.Subs = []*CmdDecl{{Name: []string{"start , run", "stop,", ", ls", "up  down"}[t.Draw(4)], Desc: "never addressed", Action: CB{Kind: CBReturn}}}
		// (never addressed: a positional token that spells one of its names - "," is one - would address it)
		for _, alias := range strings.Fields(root.Subs[0].Name) {
			for _, tok := range argv[1:] {
				if tok == alias {
					root.Subs = nil
				}
			}
		}
	}
	c.App = &AppDecl{Root: root, Policy: flag.ContinueOnError}
	c.App.Finish()
	return c
}

func (c13Prop) Exec(cc Case, st *Stats) *Violation {
	if g, ok := cc.(*genericPair); ok {
		return multiPairExec(g, st, true, true)
	}
	if m, ok := cc.(*multiCase); ok {
		return multiExecOpt(m, st, true, true)
	}
	c := cc.(*c13Case)
	c.Env.Apply()
	p := NewProc(0)
	p.SetInputSize(len(c.Argv))
	var inst *Instance
	RunProc(p, func() error {
		inst = Build(c.App, p)
		return inst.Cli.Run(c.Argv)
	})
	EnvState{}.Apply()
	st.Evals++
	d := c.Decl
	ek := elemKind(d.Kind)
	st.Count("kind." + d.Kind.String())
	st.Count("fired.delivery." + deliveryNames[c.Delivery])
	st.Nontrivial(fnv64(fmt.Sprintf("%d %v %d %q", d.Kind, d.IsArg, c.Delivery, c.Token)))
	if len(st.Samples) < 3 && c.Delivery >= 5 {
		st.Sample(c.Describe())
	}
	ranAction := false
	for _, e := range p.Observed() {
		if e == "ACT:r" {
			ranAction = true
		}
	}
	observed := map[string]interface{}{"end": describeEnd(p), "action_ran": ranAction}
	if p.End == EndBudget {
		return &Violation{Clause: "terminates", Detail: "the run exceeded the " + p.Budget + " budget", Observed: observed}
	}
	key := "r/" + d.Key()
	if c.Delivery >= 6 {
		// environment route: an unparsable token falls through to the default, a parsable one is the value
		exp, _ := precedenceModel(d, nil, c.Env)
		if _, ok := parseTok(ek, strings.TrimSpace(c.Token)); c.Delivery == 7 && ok || c.Delivery == 6 && func() bool { _, ok := parseTok(ek, c.Token); return ok && c.Token != "" }() {
			st.Count("reach.env_token_parsable")
		} else {
			st.Count("reach.env_token_unparsable")
		}
		if p.End != EndReturned || p.Err != nil || !ranAction {
			return &Violation{Clause: "env-never-rejects", Detail: "no command-line value was given: the invocation must be accepted whatever the environment holds", Expected: "accepted", Observed: observed}
		}
		got := inst.ActionSnap[key].Val
		observed["value"] = got
		if got != exp {
			return &Violation{Clause: "env-value", Detail: fmt.Sprintf("environment token %q: %s holds %s, strconv and the precedence rule give %s", c.Token, d.Key(), got, exp), Expected: exp, Observed: observed}
		}
		return nil
	}
	// command-line route
	toks := []string{}
	for i := 0; i < c.LeadN && c.Lead != ""; i++ {
		toks = append(toks, c.Lead)
	}
	if c.LeadN > 1 {
		st.Count("reach.long_command_line_1000s_of_tokens")
	}
	toks = append(toks, c.Token)
	if c.HasTrail {
		toks = append(toks, c.Trail)
		st.Count("reach.cli_valid_token_after_edge_token")
	}
	exp, ok := parseAll(d.Kind, toks)
	for _, tk := range toks {
		// every token must parse, not only the one a scalar keeps
		if _, good := parseTok(ek, tk); !good {
			ok = false
		}
	}
	if !ok {
		st.Count("reach.cli_token_unparsable")
		if ranAction {
			return &Violation{Clause: "unparsable-runs-action", Detail: fmt.Sprintf("token %q does not parse as %s (strconv) but the Action ran", c.Token, ek), Expected: "usage error, Action not run", Observed: observed}
		}
		if p.End != EndReturned || p.Err == nil {
			return &Violation{Clause: "unparsable-usage-error", Detail: fmt.Sprintf("token %q does not parse as %s (strconv): Run must return a usage error", c.Token, ek), Expected: "returned error", Observed: observed}
		}
		return nil
	}
	st.Count("reach.cli_token_parsable")
	if p.End != EndReturned || p.Err != nil || !ranAction {
		return &Violation{Clause: "parsable-accepted", Detail: fmt.Sprintf("token %q parses as %s (strconv) but the invocation was not accepted", c.Token, ek), Expected: "accepted with " + exp, Observed: observed}
	}
	got := inst.ActionSnap[key].Val
	observed["value"] = got
	if got != exp {
		return &Violation{Clause: "value-equals-strconv", Detail: fmt.Sprintf("token %q: %s holds %s, strconv gives %s", c.Token, d.Key(), got, exp), Expected: exp, Observed: observed}
	}
	return nil
}
