package main

import (
	"flag"
	"fmt"
	cli "github.com/jawher/mow.cli"
	"regexp"
	"strconv"
	"strings"
)

// C03 — spec compilation and argument parsing always terminate without crashing, whatever
// environment variables back the options.
//
// Liveness is decided as progress within a budget inside an isolated simulated process:
// every instrumented Point is a step; a step budget and a call-depth budget unwind a runaway
// process deterministically, which only *nominates* the case; a nominated case (and any case
// on which the worker process itself dies or stalls) is re-run alone in a fresh OS process
// with the budgets lifted and a 60 s wall clock, and only that verdict counts.

type c03Case struct {
	DS      *DeclSet
	Spec    string
	Source  string
	Argv    []string
	Env     EnvState
	OnSub   bool // the declarations and the spec belong to a sub-command, not to the application itself
	Stream  StreamPlan
	Version bool // the application declares a version flag (-V --version)
	Prelude bool // history: before it, the process runs an application whose help listing panics (a sub-command with an invalid spec) and recovers
}

func (c *c03Case) Describe() interface{} {
	return map[string]interface{}{"decls": describeDecls(c.DS), "spec": c.Spec, "spec_source": c.Source, "argv": c.Argv, "env": c.Env.Describe(), "on_sub_command": c.OnSub, "stream": c.Stream.String(), "prelude_app_whose_help_panics": c.Prelude}
}

type c03Prop struct{}

func init() { register(c03Prop{}) }

func (c03Prop) ID() string { return "C03" }

func (c03Prop) Rule() string {
	return "case = declarations (1..5 options, 0..3 arguments, a drawn subset backed by set environment variables) x spec (grammar-derived with a bias to nested repetitions of optional groups, " +
		"`--` and env-backed options inside repetitions and OPTIONS; byte-level mutations of such specs incl. NUL and non-ASCII; raw random bytes; <= 200 bytes) x argv (walk of the spec, mutated, or raw tokens; <= 8 tokens; no -h/--help). " +
		"distinct = distinct (spec, argv, env); non-trivial = the spec compiled (so the matcher ran)."
}

func (c03Prop) Phases(tier string) []PhaseCfg {
	n := 150_000
	if tier == "thorough" {
		n = 12_000_000
	}
	return []PhaseCfg{{Name: "seeded", Count: n}, pairPhase(3_000, 200_000, tier)}
}

var specAlphabet = []byte(" []()|.-=<>ABCDXYSRTOPINabcdef_0\t")

func mutateSpec(t *Tape, s string) string {
	b := []byte(s)
	n := 1 + t.Draw(3)
	for i := 0; i < n; i++ {
		var ch byte
		if t.Draw(4) == 0 {
			ch = byte(t.Draw(256))
		} else {
			ch = specAlphabet[t.Draw(len(specAlphabet))]
		}
		switch t.Draw(4) {
		case 0:
			if len(b) > 0 {
				k := t.Draw(len(b))
				b = append(b[:k], b[k+1:]...)
			}
		case 1:
			k := t.Draw(len(b) + 1)
			b = append(b[:k], append([]byte{ch}, b[k:]...)...)
		case 2:
			if len(b) > 0 {
				b[t.Draw(len(b))] = ch
			}
		case 3:
			// insert a structural fragment
			frag := []string{"...", "[", "]", "(", ")", " | ", " -- ", "OPTIONS", "[]", "=<x>", " - ", "-a", "--", "…", "\xe2\x80", "\xe2", "–", "\xc3", "=<é…>", "\xf0\x9f\x98"}[t.Draw(20)]
			k := t.Draw(len(b) + 1)
			b = append(b[:k], append([]byte(frag), b[k:]...)...)
		}
	}
	if t.Draw(5) == 0 && len(b) > 1 {
		// cut the string anywhere, also in the middle of a multi-byte character
		b = b[:1+t.Draw(len(b)-1)]
	}
	if t.Draw(6) == 0 {
		b = append(b, []string{"\xe2\x80", "\xe2", "…", "\xc3", " ", "\t", "."}[t.Draw(7)]...)
	}
	if len(b) > 200 {
		b = b[:200]
	}
	return string(b)
}

func rawBytes(t *Tape, max int) string {
	n := t.Draw(max + 1)
	b := make([]byte, n)
	for i := range b {
		if t.Draw(3) == 0 {
			b[i] = byte(t.Draw(256))
		} else {
			b[i] = specAlphabet[t.Draw(len(specAlphabet))]
		}
	}
	return string(b)
}

// nestedRepSpec builds the shapes the property singles out directly.
func nestedRepSpec(t *Tape, ds *DeclSet, light bool) string {
	atom := func() string {
		if len(ds.Args) > 0 && t.Draw(2) == 0 {
			return ds.Args[t.Draw(len(ds.Args))].Name
		}
		d := ds.Opts[t.Draw(len(ds.Opts))]
		s, l := optNames(d)
		if s == "" {
			return l
		}
		return s
	}
	inner := atom()
	if t.Draw(4) == 0 {
		inner = "--"
	}
	if t.Draw(4) == 0 {
		inner = "OPTIONS"
	}
	depth := 1 + t.Draw(4)
	if light && depth > 2 {
		depth = 2
	}
	s := inner
	for i := 0; i < depth; i++ {
		switch t.Draw(3) {
		case 0:
			s = "[" + s + "]..."
		case 1:
			s = "[" + s + "...]"
		default:
			s = "(" + s + " | " + atom() + ")..."
		}
	}
	if t.Draw(2) == 1 && len(ds.Args) > 0 {
		s += " " + ds.Args[0].Name
	}
	return s
}

func (c03Prop) Gen(t *Tape, ph *PhaseCfg) Case {
	if ph != nil && ph.P["pair"] == 1 {
		// scheduled steps are slow (a goroutine hand-off each): pairs use shallow specs and short command lines
		return genPair(t, func() Case { return c03Prop{}.genOne(t, true) })
	}
	return c03Prop{}.genOne(t, false)
}

func (c03Prop) genOne(t *Tape, light bool) *c03Case {
	c := &c03Case{}
	ds := genDecls(t, 4)
	c.DS = ds
	var node *specNode
	if t.Draw(40) == 0 && !light {
		return genManyOptions(t)
	}
	nest, maxArgv := 3, 6
	if light {
		nest, maxArgv = 2, 4
	}
	switch t.Weighted(4, 2, 3, 1) {
	case 0:
		node = genSpec(t, ds, 3, nest)
		c.Spec, c.Source = node.String(), "grammar"
	case 1:
		c.Spec, c.Source = nestedRepSpec(t, ds, light), "nested-repetition"
	case 2:
		node = genSpec(t, ds, 3, nest)
		c.Spec, c.Source = mutateSpec(t, node.String()), "mutated"
	default:
		c.Spec, c.Source = rawBytes(t, 40), "raw-bytes"
	}
	if len(c.Spec) > 200 {
		c.Spec = c.Spec[:200]
	}
	var toks []string
	if node != nil && t.Draw(4) != 0 {
		toks = genSentence(t, node, ds, 3).toks
	} else {
		n := t.Draw(7)
		for i := 0; i < n; i++ {
			switch t.Draw(4) {
			case 0:
				toks = append(toks, t.Pick(junkTokens))
			case 1:
				toks = append(toks, rawBytes(t, 6))
			case 2:
				s := &sentence{}
				s.emitOpt(t, ds.Opts[t.Draw(len(ds.Opts))])
				toks = append(toks, s.toks...)
			default:
				toks = append(toks, "v"+strconv.Itoa(t.Draw(3)))
			}
		}
	}
	ownHelp := false
	for _, d := range ds.Opts {
		for _, n := range strings.Fields(d.Name) {
			if n == "h" || n == "help" {
				ownHelp = true
			}
		}
	}
	argv := []string{"app"}
	for _, tok := range toks {
		// help requests are C14's subject, except when the application declares an option of that name itself
		if ((tok == "-h" || tok == "--help") && !ownHelp) || len(argv) > maxArgv {
			continue
		}
		argv = append(argv, strings.ReplaceAll(tok, "\x00", ""))
	}
	if t.Draw(3) == 0 {
		c.OnSub = true
		argv = append([]string{"app", "sub"}, argv[1:]...)
	}
	if t.Draw(4) == 0 {
		c.Stream = drawStream(t)
	}
	c.Prelude = t.Draw(12) == 0
	c.Version = t.Draw(5) == 0
	if c.Version && t.Draw(3) == 0 {
		argv = argv[:1] // an application with a version flag and nothing at all on the command line
		if c.OnSub {
			argv = append(argv, "sub")
		}
	}
	c.Argv = argv
	// every subset of the env-backed declarations
	c.Env = envFor(t, ds.All(), func(d *Decl) bool { return t.Draw(3) != 0 })
	// "whatever environment variables back the options": also empty, blank, separator-only, invalid and raw contents
	for k := 0; k < envPool; k++ {
		if c.Env[k] != nil && t.Draw(4) == 0 {
			weird := []string{"", " ", ",", ",,,", " , ", "zz", "1,x", "\t", "a,,b", ",1", "1,", "=", "-", "--"}
			if t.Draw(5) == 0 {
				c.Env.Set(k, strings.ReplaceAll(rawBytes(t, 8), "\x00", ""))
			} else {
				c.Env.Set(k, t.Pick(weird))
			}
		}
	}
	return c
}

var parseErrRe = regexp.MustCompile(`^Parse error at position (\d+):`)

func safeErrorText(e error) (text string, panicked bool) {
	defer func() {
		if r := recover(); r != nil {
			panicked = true
			text = fmt.Sprint(r)
		}
	}()
	return e.Error(), false
}

func (c03Prop) Exec(cc Case, st *Stats) *Violation {
	if g, ok := cc.(*genericPair); ok {
		return execGenericPair(g, st, func(c Case, id int) *Prepared { return c03Prepare(c.(*c03Case), id) },
			func(c Case) EnvState { return c.(*c03Case).Env }, func(c Case, e EnvState) { c.(*c03Case).Env = e })
	}
	c := cc.(*c03Case)
	c.Env.Apply()
	pr := c03Prepare(c, 0)
	RunProc(pr.Proc, pr.Body)
	EnvState{}.Apply()
	return pr.Finish(st)
}

func c03Prepare(c *c03Case, id int) *Prepared {
	root := &CmdDecl{Name: "app", Spec: c.Spec, Decls: c.DS.All(), Action: CB{Kind: CBReturn}}
	if c.OnSub {
		sub := &CmdDecl{Name: "sub", Spec: c.Spec, Decls: c.DS.All(), Action: CB{Kind: CBReturn}}
		root = &CmdDecl{Name: "app", Subs: []*CmdDecl{sub}}
	}
	app := &AppDecl{Root: root, Policy: flag.ContinueOnError}
	if c.Version {
		app.Version = []string{"V version", "1.0-sim"}
	}
	app.Finish()
	p := NewProc(id)
	p.Stream = c.Stream
	var inst *Instance
	body := func() error {
		if c.Prelude {
			runPrelude()
		}
		inst = Build(app, p)
		return inst.Cli.Run(c.Argv)
	}
	return &Prepared{Proc: p, Body: body, Finish: func(st *Stats) *Violation {
		if v := c03Verdict(c, p, st); v != nil {
			return v
		}
		return c03Again(c, p, inst, st)
	}}
}

// c03Outcome names the documented outcome a run ended in ("" = none of them, or a budget).
func c03Outcome(p *Proc) string {
	switch p.End {
	case EndPanicked:
		if err, ok := p.PanicVal.(error); ok {
			if text, bad := safeErrorText(err); !bad && parseErrRe.MatchString(text) {
				return "spec error: " + text
			}
		}
	case EndReturned:
		if p.Err == nil {
			return "returned nil"
		}
		return "usage error"
	}
	return ""
}

// c03Again: history on one application object. A caller that recovers the spec error (or simply loops) and calls
// Run again with the same command line gets the same documented outcome again - not a crash on half-initialised state.
// (Only for applications whose declarations sit on the root: a sub-command's initializer declares them anew.)
func c03Again(c *c03Case, p *Proc, inst *Instance, st *Stats) *Violation {
	first := c03Outcome(p)
	if c.OnSub || inst == nil || first == "" {
		return nil
	}
	if !strings.HasPrefix(first, "spec error") && fnv64(c.Spec)%4 != 0 {
		return nil
	}
	st.Count("reach.same_application_object_run_again")
	p2 := NewProc(p.ID + 50)
	p2.Stream = c.Stream
	inst.Proc = p2
	RunProc(p2, func() error { return inst.Cli.Run(c.Argv) })
	second := c03Outcome(p2)
	if p2.End == EndBudget && p2.Budget == "steps" {
		return nil // the first run stayed below the step budget by a hair: nothing to conclude
	}
	// Which documented outcome the second Run ends in is not this property's business, except that a spec that did not
	// compile still does not: the library forgets that a variable was satisfied by its environment value once the command
	// line has set it (fsm.fillContainers clears ValueSetFromEnv), so a command line accepted at first can be a usage
	// error the second time - an outcome C03 allows.
	if second == "" || strings.HasPrefix(first, "spec error") && second != first {
		return &Violation{Clause: "run-again", Detail: fmt.Sprintf("the first Run ended in a documented outcome (%s); Run called again on the same application object with the same command line: %s", clip(first, 200), describeEnd(p2)),
			Expected: "a documented outcome again (the same spec error when the spec does not compile)", Observed: map[string]interface{}{"first": describeEnd(p), "second": describeEnd(p2)}}
	}
	if second != first {
		st.Count("reach.second_run_of_the_same_object_ends_in_another_documented_outcome")
	}
	return nil
}

func c03Verdict(c *c03Case, p *Proc, st *Stats) *Violation {
	st.Evals++
	st.Count("spec_source." + c.Source)
	for range c.Env.Describe() {
		st.Count("fired.env_backed_value_set")
	}
	actions := 0
	for _, e := range p.Observed() {
		if e == "ACT:r" || e == "ACT:r.0" {
			actions++
		}
	}
	observed := map[string]interface{}{"end": describeEnd(p), "action_runs": actions, "steps": p.Steps}
	switch {
	case p.Steps > 1_000_000:
		st.Count("steps.gt_1e6")
	case p.Steps > 100_000:
		st.Count("steps.gt_1e5")
	case p.Steps > 10_000:
		st.Count("steps.gt_1e4")
	}
	switch p.End {
	case EndBudget:
		st.Count("reach.budget_" + p.Budget)
		switch p.Budget {
		case "steps":
			// total steps: exponential backtracking can exceed it legitimately; only a run alone with this budget lifted decides
			return &Violation{Clause: "budget-steps", Detail: "the simulated process exceeded the total step budget", Observed: observed, Nominate: true}
		case "depth":
			return &Violation{Clause: "runaway-recursion", Detail: fmt.Sprintf("the call stack grew beyond %d frames: unbounded recursion (a real process dies of stack exhaustion)", depthBudget), Expected: "a documented outcome", Observed: observed}
		case "stuck-loop":
			return &Violation{Clause: "stuck-in-loop", Detail: fmt.Sprintf("more than %d consecutive iterations of a lexer / parser / matcher / shortcut-elimination loop without leaving it: the run does not terminate", stuckLoopBudget), Expected: "a documented outcome", Observed: observed}
		default:
			return &Violation{Clause: "compile-does-not-terminate", Detail: fmt.Sprintf("compiling the spec took more than %d steps", compileBudget), Expected: "a documented outcome", Observed: observed}
		}
	case EndPanicked:
		err, ok := p.PanicVal.(error)
		if !ok {
			return &Violation{Clause: "undocumented-panic", Detail: fmt.Sprintf("Run panicked with a %T: %v", p.PanicVal, p.PanicVal), Expected: "spec error, acceptance or usage error", Observed: observed}
		}
		text, bad := safeErrorText(err)
		if bad {
			return &Violation{Clause: "spec-error-unprintable", Detail: "the spec error panics when its text is requested: " + text, Expected: "a printable spec error", Observed: observed}
		}
		m := parseErrRe.FindStringSubmatch(text)
		if m == nil {
			return &Violation{Clause: "undocumented-panic", Detail: fmt.Sprintf("Run panicked with %T: %s", err, clip(text, 300)), Expected: "spec error, acceptance or usage error", Observed: observed}
		}
		pos, _ := strconv.Atoi(m[1])
		if pos < 0 || pos > len(c.Spec) {
			return &Violation{Clause: "spec-error-position", Detail: fmt.Sprintf("spec error position %d lies outside the spec (length %d)", pos, len(c.Spec)), Expected: "0 <= position <= len(spec)", Observed: observed}
		}
		if actions != 0 {
			return &Violation{Clause: "spec-error-runs-action", Detail: "the Action ran although the spec did not compile", Observed: observed}
		}
		st.Count("outcome.spec_error")
		return nil
	case EndReturned:
		st.Nontrivial(fnv64(fmt.Sprintf("%q|%q|%v", c.Spec, c.Argv, c.Env.Describe())))
		if len(st.Samples) < 3 && len(c.Env.Describe()) > 0 && strings.Contains(c.Spec, "...") {
			st.Sample(c.Describe())
		}
		if p.Err == nil && actions == 0 && c03HelpRequested(c) {
			st.Count("outcome.help_of_an_application_declaring_its_own_h")
			return nil
		}
		if p.Err == nil && actions == 0 && c.Version && len(c.Argv) > 1 && (c.Argv[1] == "-V" || c.Argv[1] == "--version") {
			// (a mutated token can spell the declared version flag in first position: a version request, C14's subject)
			st.Count("outcome.version_request")
			return nil
		}
		if p.Err == nil {
			if actions != 1 {
				return &Violation{Clause: "accepted-action-once", Detail: fmt.Sprintf("Run returned nil but the Action ran %d times", actions), Expected: "exactly once", Observed: observed}
			}
			st.Count("outcome.accepted")
			return nil
		}
		if actions != 0 {
			return &Violation{Clause: "usage-error-runs-action", Detail: "Run returned a usage error but the Action ran", Observed: observed}
		}
		st.Count("outcome.usage_error")
		return nil
	}
	return &Violation{Clause: "undocumented-end", Detail: "the run ended in none of the documented outcomes: " + describeEnd(p), Observed: observed}
}

// genManyOptions: a command with more options than fit any word-sized bookkeeping (66..90), some of the
// late ones backed by set environment variables, under OPTIONS, with something left on the command line.
func genManyOptions(t *Tape) *c03Case {
	c := &c03Case{Source: "many-options"}
	ds := &DeclSet{}
	n := 66 + t.Draw(25)
	for i := 0; i < n; i++ {
		d := &Decl{Name: fmt.Sprintf("o%02d", i), Kind: []ValKind{KBool, KString, KStrings}[t.Draw(3)]}
		if i >= 60 && t.Draw(3) == 0 {
			d.EnvVars = []int{i % envPool}
		}
		ds.Opts = append(ds.Opts, d)
	}
	ds.Args = []*Decl{{IsArg: true, Name: "X", Kind: KStrings}}
	c.DS = ds
	c.Spec = []string{"[OPTIONS] X...", "[OPTIONS] [X...]", "OPTIONS... X", "[OPTIONS]... X..."}[t.Draw(4)]
	argv := []string{"app"}
	k := t.Draw(4)
	for i := 0; i < k; i++ {
		d := ds.Opts[t.Draw(n)]
		s := &sentence{}
		s.emitOpt(t, d)
		argv = append(argv, s.toks...)
	}
	for i := t.Draw(3); i > 0; i-- {
		argv = append(argv, "v"+strconv.Itoa(i))
	}
	c.Argv = argv
	c.Env = envFor(t, ds.Opts, func(d *Decl) bool { return true })
	return c
}

// c03HelpRequested: a -h / --help token before any `--` is a help request even when the application
// declares an option of that name (the library's help wins): Run prints the help and returns nil.
func c03HelpRequested(c *c03Case) bool {
	for _, tok := range c.Argv[1:] {
		if tok == "--" {
			return false
		}
		if tok == "-h" || tok == "--help" {
			return true
		}
	}
	return false
}

// runPrelude: another application of the same process asks for its help; listing its sub-commands compiles an invalid
// spec and panics (the documented outcome), and the host program recovers. Nothing of that may outlive the call.
func runPrelude() {
	defer func() { recover() }()
	pre := cli.App("pre", "an application with a broken sub-command")
	pre.ErrorHandling = flag.ContinueOnError
	pre.Command("broken", "invalid spec", func(c *cli.Cmd) { c.Spec = "[" })
	pre.Command("fine", "valid", func(c *cli.Cmd) { c.Action = func() {} })
	pre.Run([]string{"pre", "--help"})
}
