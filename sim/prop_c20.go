package main

import (
	"bytes"
	"encoding/json"
	"fmt"
	"os"
	"path/filepath"
	"sort"
	"strings"
	"sync"
	"time"

	cli "github.com/jawher/mow.cli"
)

// C20 — applications are independent and deterministic.
//
// Component A (scheduled non-interference, replayable): N independent applications are first
// run alone (twice: R1, R2), then all together under the cooperative scheduler, one tape
// deciding every switch; each application's concurrent outcome must equal its solo outcome.
// Component B (order histories) is the serial strategy of the same scheduler, plus a
// cross-check of solo outcomes against a fresh OS process. Component C mutates the
// environment between declaration and Run. Component D (race detector, free-running, not
// schedule-controlled) is in race.go.

type appCase struct {
	Kind   string
	App    *AppDecl
	Argv   []string
	Env    EnvState
	Stream StreamPlan
	Desc   interface{}

	altArgv func(t *Tape) []string // another command line for the same application (nil: none)
}

var c20TreePhase = PhaseCfg{P: map[string]int{"maxdepth": 3}}

func genAppCase(t *Tape) *appCase {
	if t.Draw(12) == 0 {
		// an application whose help listing blows up: the command whose help is requested has a (hidden or visible)
		// sub-command with an invalid spec, which the library only compiles when it lists the sub-commands
		c := c14Invocation(t, genTree(t, TreeOpts{Depth: -1, MaxDepth: 2, Policy: 0, CB: c07Callbacks}), "help")
		app := *c.Tree.App
		app.Policy = policies[t.Draw(3)]
		lvl := c.Tree.Path[c.Level]
		lvl.Subs = append(lvl.Subs, &CmdDecl{Name: "broken", Desc: "invalid spec", Spec: []string{"[", "X", "-z", "(a"}[t.Draw(4)], Hidden: t.Draw(2) == 0,
			Action: CB{Kind: CBReturn}, Tag: lvl.Tag + ".broken"})
		return &appCase{Kind: "tree-help-with-broken-sub-command", App: &app, Argv: c.Argv, Stream: c.Stream, Desc: c.Describe()}
	}
	if t.Draw(8) == 0 {
		// several options behind OPTIONS / a folded group / listed one by one, folded on the command line, some env-backed
		m := genMulti(t)
		return &appCase{Kind: "multi-container", App: m.App, Argv: m.Argv, Env: m.Env, Desc: m.Describe()}
	}
	switch t.Weighted(3, 2, 2, 4, 2, 2) {
	case 0:
		c := c05Prop{}.Gen(t, &c20TreePhase).(*c05Case)
		return &appCase{Kind: "tree-faults", App: c.Tree.App, Argv: c.Argv, Desc: c.Describe()}
	case 1:
		c := c07Prop{}.Gen(t, &c20TreePhase).(*c07Case)
		app := *c.Tree.App
		app.Policy = policies[t.Draw(3)]
		return &appCase{Kind: "tree-reject", App: &app, Argv: c.Argv, Stream: c.Stream, Desc: c.Describe()}
	case 2:
		c := c14Prop{}.Gen(t, &c20TreePhase).(*c07Case)
		app := *c.Tree.App
		app.Policy = policies[t.Draw(3)]
		return &appCase{Kind: "tree-help", App: &app, Argv: c.Argv, Stream: c.Stream, Desc: c.Describe()}
	case 3:
		return genSpecApp(t)
	case 4:
		c := genContainer(t)
		return &appCase{Kind: "container", App: c.App, Argv: c.Argv, Env: c.Env, Desc: c.Describe(), altArgv: func(t *Tape) []string {
			if t.Draw(2) == 0 {
				return []string{"app"}
			}
			return c.Argv2
		}}
	default:
		c := c19Prop{}.Gen(t, nil).(*c19Case)
		return &appCase{Kind: "probe", App: c.App, Argv: c.Argv, Env: c.Env, Desc: c.Describe()}
	}
}

func genSpecApp(t *Tape) *appCase {
	ds := genDecls(t, 3)
	node := genSpec(t, ds, 2, 2)
	s := genSentence(t, node, ds, 2)
	if t.Draw(2) == 0 {
		s.foldAdjacent(t, ds)
	}
	if len(ds.Opts) >= 2 && t.Draw(6) == 0 {
		// an abbreviation of two long names of equal length: no option at all
		if _, l0 := optNames(ds.Opts[0]); l0 == "--alpha" {
			if _, l1 := optNames(ds.Opts[1]); l1 == "--alpes" {
				k := t.Draw(len(s.toks) + 1)
				s.toks = append(s.toks[:k:k], append([]string{[]string{"--alp=1", "--al", "--alp", "--al=x"}[t.Draw(4)]}, s.toks[k:]...)...)
			}
		}
	}
	root := &CmdDecl{Name: "app", Spec: node.String(), Decls: ds.All(), Action: CB{Kind: CBReturn}}
	app := &AppDecl{Root: root, Policy: policies[t.Draw(3)]}
	app.Finish()
	argv := append([]string{"app"}, s.toks...)
	env := envFor(t, ds.All(), func(d *Decl) bool { return t.Draw(2) == 1 })
	return &appCase{Kind: "spec", App: app, Argv: argv, Env: env,
		Desc:    map[string]interface{}{"decls": describeDecls(ds), "spec": root.Spec, "argv": argv, "policy": policyName(app.Policy)},
		altArgv: func(t *Tape) []string { return append([]string{"app"}, genSentence(t, node, ds, 1).toks...) }}
}

// twinOf returns an application with the same names and the same spec string as a spec app
// but different value types and defaults: what a cache keyed by spec string would confuse.
func twinOf(t *Tape, a *appCase) *appCase {
	root := *a.App.Root
	root.Decls = nil
	for _, d := range a.App.Root.Decls {
		nd := *d
		if !d.IsArg && d.Kind != KVar {
			nd.Kind = []ValKind{KString, KStrings}[t.Draw(2)]
			nd.Def, nd.DefList = "", nil
			if nd.Kind == KString {
				nd.Def = "twin"
			}
		}
		root.Decls = append(root.Decls, &nd)
	}
	app := &AppDecl{Root: &root, Policy: a.App.Policy}
	app.Finish()
	return &appCase{Kind: "twin", App: app, Argv: a.Argv, Env: a.Env, Stream: a.Stream, Desc: map[string]interface{}{"twin_of_spec": root.Spec, "argv": a.Argv}}
}

// ---------------------------------------------------------------------------
// Outcomes

type appOutcome map[string]string

func outcomeOf(p *Proc, inst *Instance) appOutcome {
	o := appOutcome{}
	switch p.End {
	case EndReturned:
		o["end"] = "returned"
		if p.Err != nil {
			o["end"] = "returned-error"
			o["err_text"] = p.Err.Error()
		}
	case EndExited:
		o["end"] = fmt.Sprintf("exited(%d) calls=%d", p.ExitCode, p.ExitCalls)
	case EndPanicked:
		o["end"] = "panicked"
		who := ""
		for _, ev := range p.Observed() { // in event order, so that the label never depends on map iteration
			if v, ok := p.Raised[ev]; ok && sameValue(v, p.PanicVal) {
				who = ev
			}
		}
		if who != "" {
			o["panic"] = "value raised by " + who
		} else if e, ok := p.PanicVal.(error); ok {
			txt, _ := safeErrorText(e)
			o["panic"] = "error"
			o["err_text"] = txt
		} else {
			o["panic"] = fmt.Sprintf("%T", p.PanicVal)
		}
	case EndBudget:
		o["end"] = "budget:" + p.Budget
	}
	o["events"] = strings.Join(p.Observed(), " ")
	accepted := p.End == EndReturned && p.Err == nil
	o["accepted"] = fmt.Sprint(accepted)
	if inst != nil {
		if inst.ActionSnap != nil {
			o["values_in_action"] = snapString(inst.ActionSnap)
		}
		if accepted {
			o["values_final"] = snapString(inst.Snapshot())
		}
		keys := append([]string{}, inst.keys...)
		sort.Strings(keys)
		var sb strings.Builder
		for _, k := range keys {
			if log := inst.ProbeLog(k); log != nil {
				fmt.Fprintf(&sb, "%s:%v;", k, callStrings(log))
			}
		}
		o["probe_logs"] = sb.String()
	}
	o["stderr"] = p.Stderr.String()
	o["stdout"] = p.Stdout.String()
	return o
}

// comparableFields returns the fields of a solo outcome that are a function of the application
// alone. Go's map iteration order decides in which order *different* containers are filled, so
// when a run was rejected by a failing Set / type conversion (and not by a spec mismatch), which
// error is reported and which other containers were already filled is not determined: only the
// way the run ended and what ran are compared then. The same holds when the stream is faulty
// and the reason of the rejection cannot be read.
func comparableFields(o appOutcome, stream StreamPlan) map[string]bool {
	all := map[string]bool{}
	for k := range o {
		all[k] = true
	}
	if o["accepted"] == "true" {
		return all
	}
	// what the library says for a plain spec mismatch is learnt from the tree under test, not assumed
	mismatch := specMismatchText()
	errOut := o["stderr"]
	rejectedByValue := strings.Contains(errOut, "Error: ") && !strings.Contains(errOut, "Error: "+mismatch+"\n")
	if t, ok := o["err_text"]; ok && t != mismatch && o["events"] == "" {
		rejectedByValue = true
	}
	if strings.Contains(o["probe_logs"], "!err") {
		rejectedByValue = true // a user value refused a token (whatever its error says)
	}
	unreadable := stream.Kind != StreamHealthy && o["events"] == "" && (strings.HasPrefix(o["end"], "returned-error") || strings.HasPrefix(o["end"], "exited(2)") || o["panic"] == "error")
	if rejectedByValue || unreadable {
		return map[string]bool{"end": true, "events": true, "accepted": true, "stdout": true, "panic": true}
	}
	return all
}

var mismatchText string

// specMismatchText runs a calibration application once per process: spec `X`, no argument.
func specMismatchText() string {
	if mismatchText != "" {
		return mismatchText
	}
	root := &CmdDecl{Name: "calib", Spec: "X", Decls: []*Decl{{IsArg: true, Kind: KString, Name: "X"}}, Action: CB{Kind: CBReturn}}
	app := &AppDecl{Root: root, Policy: policies[0]}
	app.Finish()
	p := NewProc(99)
	saved, savedSched := cur, theSched
	if theSched == nil && !gidMode {
		RunProc(p, func() error { return Build(app, p).Cli.Run([]string{"calib"}) })
	}
	cur, theSched = saved, savedSched
	mismatchText = "incorrect usage"
	if p.End == EndReturned && p.Err != nil {
		mismatchText = p.Err.Error()
	}
	return mismatchText
}

// the fields the determinism clause is about
var coreFields = []string{"accepted", "values_in_action", "values_final"}

func diffOutcome(a, b appOutcome, only map[string]bool) string {
	keys := []string{}
	for k := range a {
		keys = append(keys, k)
	}
	for k := range b {
		if _, ok := a[k]; !ok {
			keys = append(keys, k)
		}
	}
	sort.Strings(keys)
	for _, k := range keys {
		if only != nil && !only[k] {
			continue
		}
		if a[k] != b[k] {
			return fmt.Sprintf("%s: %q vs %q", k, clip(a[k], 300), clip(b[k], 300))
		}
	}
	return ""
}

func (ac *appCase) body(p *Proc, slot **Instance, mid func()) func() error {
	return func() error {
		inst := Build(ac.App, p)
		*slot = inst
		if mid != nil {
			mid()
		}
		return inst.Cli.Run(ac.Argv)
	}
}

// c20StepBudget: a scheduled step costs a goroutine hand-off, so the worlds of C20 use a smaller step
// budget than the other checks — the same one alone and together, so that an application whose matcher
// backtracks beyond it ends as "budget:steps" in both and compares equal.
const c20StepBudget = 100_000

func c20Proc(id int, ac *appCase) *Proc {
	p := NewProc(id)
	p.Stream = ac.Stream
	if !liftBudgets {
		p.StepBudget = c20StepBudget
	}
	return p
}

func runSolo(ac *appCase, mid func()) appOutcome {
	p := c20Proc(0, ac)
	var inst *Instance
	RunProc(p, ac.body(p, &inst, mid))
	return outcomeOf(p, inst)
}

// ---------------------------------------------------------------------------

type c20Case struct {
	Mode     string // "concurrent" | "env-after-declare"
	Apps     []*appCase
	Env      EnvState // the world's environment (merged requirements of the apps)
	EnvAfter EnvState // env-after-declare: the environment installed between declaration and Run
	Strategy int
	Fresh    bool
	tape     *Tape // the rest of the tape decides the schedule
}

func (c *c20Case) Describe() interface{} {
	apps := []interface{}{}
	for i, a := range c.Apps {
		apps = append(apps, map[string]interface{}{"proc": i, "kind": a.Kind, "stream": a.Stream.String(), "case": a.Desc})
	}
	m := map[string]interface{}{"mode": c.Mode, "apps": apps, "env": c.Env.Describe()}
	if c.Mode == "concurrent" {
		m["strategy"] = stratNames[c.Strategy]
		m["fresh_process_cross_check"] = c.Fresh
	} else {
		m["env_after_declaration"] = c.EnvAfter.Describe()
	}
	return m
}

type c20Prop struct{}

func init() { register(c20Prop{}) }

func (c20Prop) ID() string { return "C20" }

func (c20Prop) Rule() string {
	return "case (concurrent) = 2..6 independent applications drawn from all the generators of the other properties (callback-fault trees, rejected / help trees under a drawn policy and stream plan, grammar-derived spec apps with env-backed options, " +
		"single-container apps, probe-value apps, 'twins' sharing spec string and names but not types) in one world (merged environment); each is run alone twice, then all are run together under the cooperative scheduler " +
		"(strategy: uniform / PCT-like / coarse / serial order) with every switch drawn from the tape. case (env-after-declare) = one application whose env-backed declarations are at root level; the environment is mutated between declaration and Run. " +
		"distinct = distinct hashes of the grant sequence (process, site); non-trivial = at least 2 context switches. A sample of solo outcomes is cross-checked against a fresh OS process. The race-detector stage is reported separately (coverage.race_stage)."
}

func (c20Prop) Phases(tier string) []PhaseCfg {
	n := 6_000
	if tier == "thorough" {
		n = 400_000
	}
	return []PhaseCfg{{Name: "seeded", Count: n}}
}

func mutateEnv(t *Tape, e EnvState) EnvState {
	out := e
	for k := 0; k < envPool; k++ {
		switch t.Draw(4) {
		case 0:
			out.Unset(k)
		case 1:
			out.Set(k, []string{"9", "true", "zz", "1.5", "x,y", "", "0"}[t.Draw(7)])
		}
	}
	return out
}

func (c20Prop) Gen(t *Tape, ph *PhaseCfg) Case {
	c := &c20Case{tape: t}
	if t.Draw(5) == 0 {
		c.Mode = "env-after-declare"
		var a *appCase
		switch t.Draw(3) {
		case 0:
			a = genSpecApp(t)
		case 1:
			cc := genContainer(t)
			a = &appCase{Kind: "container", App: cc.App, Argv: cc.Argv, Env: cc.Env, Desc: cc.Describe()}
		default:
			cc := c19Prop{}.Gen(t, nil).(*c19Case)
			a = &appCase{Kind: "probe", App: cc.App, Argv: cc.Argv, Env: cc.Env, Desc: cc.Describe()}
		}
		c.Apps = []*appCase{a}
		c.Env = a.Env
		c.EnvAfter = mutateEnv(t, a.Env)
		return c
	}
	c.Mode = "concurrent"
	if t.Draw(20) == 0 {
		// two applications that each end in an Exit with a status of their own, compared across order histories
		for _, code := range []int{3, 4} {
			cc := c05Prop{}.Gen(t, &c20TreePhase).(*c05Case)
			leaf := cc.Tree.Path[len(cc.Tree.Path)-1]
			leaf.Action = CB{Kind: CBExit, ExitCode: code + t.Draw(2)*10}
			c.Apps = append(c.Apps, &appCase{Kind: "tree-exits", App: cc.Tree.App, Argv: cc.Argv, Desc: cc.Describe()})
		}
		c.Strategy = t.Draw(numStrats)
		c.Fresh = true
		return c
	}
	n := 2 + t.Draw(5)
	for i := 0; i < n; i++ {
		if i > 0 && t.Draw(5) == 0 {
			prev := c.Apps[t.Draw(len(c.Apps))]
			if prev.Kind == "spec" && t.Draw(2) == 0 {
				c.Apps = append(c.Apps, twinOf(t, prev))
			} else {
				// the very same description (the same declarations, hence the same default objects of the
				// user's program), built again, with the same or with another command line
				cp := *prev
				if prev.altArgv != nil && t.Draw(3) != 0 {
					cp.Argv = prev.altArgv(t)
					cp.Kind = prev.Kind + "-sibling"
					cp.Desc = map[string]interface{}{"same_declarations_as": prev.Desc, "argv": cp.Argv}
				}
				c.Apps = append(c.Apps, &cp)
			}
			continue
		}
		c.Apps = append(c.Apps, genAppCase(t))
	}
	for _, a := range c.Apps {
		for k := 0; k < envPool; k++ {
			if c.Env[k] == nil && a.Env[k] != nil {
				c.Env[k] = a.Env[k]
			}
		}
	}
	c.Strategy = t.Draw(numStrats)
	c.Fresh = t.Draw(8) == 0
	return c
}

func (c20Prop) Exec(cc Case, st *Stats) *Violation {
	c := cc.(*c20Case)
	st.Evals++
	st.Count("mode." + c.Mode)
	defer EnvState{}.Apply()
	if c.Mode == "env-after-declare" {
		return c20EnvAfter(c, st)
	}
	c.Env.Apply()
	n := len(c.Apps)
	r1 := make([]appOutcome, n)
	r2 := make([]appOutcome, n)
	decls := make([]*AppDecl, n)
	for i, a := range c.Apps {
		decls[i] = a.App
	}
	for i, a := range c.Apps {
		st.Count("app_kind." + a.Kind)
		// every solo run is a history of its own: it starts from pristine user-program state
		resetWorld(decls...)
		r1[i] = runSolo(a, nil)
		resetWorld(decls...)
		r2[i] = runSolo(a, nil)
		if d := diffOutcome(r1[i], r2[i], map[string]bool{"accepted": true, "values_in_action": true, "values_final": true}); d != "" {
			return &Violation{Clause: "rebuild-determinism map-order", Detail: fmt.Sprintf("application %d built and run twice alone gives different results: %s", i, d), Observed: map[string]interface{}{"first": r1[i], "second": r2[i]}}
		}
	}
	// fields that are stable across rebuilds (an error text may legitimately depend on map iteration order)
	stable := make([]map[string]bool, n)
	for i := range c.Apps {
		stable[i] = map[string]bool{}
		cmp := comparableFields(r1[i], c.Apps[i].Stream)
		for k := range r1[i] {
			if r1[i][k] == r2[i][k] && cmp[k] {
				stable[i][k] = true
			}
		}
		for _, k := range coreFields {
			stable[i][k] = true
		}
	}
	if c.Fresh {
		if v := c20FreshCheck(c, stable, st); v != nil {
			return v
		}
	}
	// all together, under the scheduler: one history, starting from pristine user-program state
	resetWorld(decls...)
	procs := make([]*Proc, n)
	insts := make([]*Instance, n)
	bodies := make([]func() error, n)
	for i, a := range c.Apps {
		procs[i] = c20Proc(i, a)
		bodies[i] = a.body(procs[i], &insts[i], nil)
	}
	s := RunScheduled(c.tape, c.Strategy, procs, bodies)
	st.Count("strategy." + stratNames[s.Strategy])
	st.Add("fired.context_switches", int64(s.Switches))
	st.Add("grants", int64(len(s.Grants)))
	if s.Switches >= 2 {
		st.Nontrivial(s.Hash())
	}
	if s.Uncontrolled {
		st.Count("reach.uncontrolled_lock_fallback")
	}
	if len(st.Samples) < 2 && s.Switches >= 4 {
		st.Sample(map[string]interface{}{"case": c.Describe(), "schedule": s.DescribeGrants(40)})
	}
	if s.Deadlock {
		return &Violation{Clause: "concurrent-run-finishes", Detail: "the applications did not all finish when run together (blocked on one another)", Observed: s.DescribeGrants(60)}
	}
	for i := range c.Apps {
		if procs[i].End == EndBudget {
			st.Count("reach.application_cut_by_the_step_budget")
		}
		got := outcomeOf(procs[i], insts[i])
		if d := diffOutcome(r1[i], got, stable[i]); d != "" {
			return &Violation{Clause: "non-interference", Detail: fmt.Sprintf("application %d (%s) behaves differently when run together with the others than alone: %s", i, c.Apps[i].Kind, d),
				Expected: r1[i], Observed: map[string]interface{}{"together": got, "schedule": s.DescribeGrants(80), "strategy": stratNames[s.Strategy]}}
		}
	}
	return nil
}

func c20EnvAfter(c *c20Case, st *Stats) *Violation {
	a := c.Apps[0]
	c.Env.Apply()
	ref := runSolo(a, nil)
	ref2 := runSolo(a, nil)
	c.Env.Apply()
	mut := runSolo(a, func() { c.EnvAfter.Apply() })
	st.Count("fired.env_mutated_after_declaration")
	st.Nontrivial(fnv64(fmt.Sprintf("%v|%v|%v", a.Desc, c.Env.Describe(), c.EnvAfter.Describe())))
	stable := map[string]bool{}
	cmp := comparableFields(ref, a.Stream)
	for k := range ref {
		if ref[k] == ref2[k] && cmp[k] {
			stable[k] = true
		}
	}
	for _, k := range coreFields {
		stable[k] = true
	}
	if d := diffOutcome(ref, mut, stable); d != "" {
		return &Violation{Clause: "env-at-declaration-time", Detail: "changing the environment after the declarations changed the outcome: " + d, Expected: ref, Observed: mut}
	}
	return nil
}

// c20FreshCheck is the order-history component: every application of the case is run alone in its own
// fresh OS process, and all of them are run one after another (in case order) in one more fresh OS
// process; what an application does must not depend on which applications the process ran before.
// Both sides are fresh processes whose whole history is this case, so a failure replays from the tape.
func c20FreshCheck(c *c20Case, stable []map[string]bool, st *Stats) *Violation {
	dir := filepath.Join(verifHome(), ".work")
	os.MkdirAll(dir, 0o755)
	f, err := os.CreateTemp(dir, "c20fresh-*.json")
	if err != nil {
		return nil
	}
	defer os.Remove(f.Name())
	rf := &ReplayFile{Property: "C20", Phase: PhaseCfg{Name: "seeded"}, Tape: c.tape.Rec}
	f.WriteString(mustJSON(rf))
	f.Close()
	child := func(only int) []appOutcome {
		co := runChild(60*time.Second, "solo", "--replay", f.Name(), "--c20-solo-outcomes", "--only", fmt.Sprint(only))
		if co.died || co.hung {
			return nil // a harness-side problem of the cross-check must never become an alarm
		}
		var outs []appOutcome
		if json.Unmarshal(bytes.TrimSpace(co.stdout), &outs) != nil {
			return nil
		}
		return outs
	}
	seq := child(-1)
	if len(seq) != len(c.Apps) {
		// the sequence did not finish (or died): a verdict only if every application finishes when run alone
		for i := range c.Apps {
			if alone := child(i); len(alone) != 1 {
				return nil
			}
		}
		return &Violation{Clause: "history-independence", Detail: "every application finishes when run alone in a fresh OS process, but running them one after another in one fresh OS process does not finish (or dies)"}
	}
	st.Count("reach.fresh_process_order_history_check")
	for i := range c.Apps {
		alone := child(i)
		if len(alone) != 1 {
			return nil
		}
		cmp := comparableFields(alone[0], c.Apps[i].Stream)
		only := map[string]bool{}
		for k := range cmp {
			if stable[i][k] {
				only[k] = true
			}
		}
		if d := diffOutcome(alone[0], seq[i], only); d != "" {
			return &Violation{Clause: "history-independence", Detail: fmt.Sprintf("application %d (%s) run after applications 0..%d in one fresh OS process differs from the same application run alone in a fresh OS process: %s", i, c.Apps[i].Kind, i-1, d),
				Expected: alone[0], Observed: seq[i]}
		}
	}
	return nil
}

// c20SoloOutcomes is the child side of the order-history check: only >= 0 runs that application alone,
// only < 0 runs all of them one after another.
func c20SoloOutcomes(t *Tape, only int) {
	c := c20Prop{}.Gen(t, nil).(*c20Case)
	outs := []appOutcome{}
	if c.Mode == "concurrent" {
		c.Env.Apply()
		decls := []*AppDecl{}
		for _, a := range c.Apps {
			decls = append(decls, a.App)
		}
		resetWorld(decls...)
		for i, a := range c.Apps {
			if only >= 0 && i != only {
				continue
			}
			outs = append(outs, runSolo(a, nil))
		}
	}
	b, _ := json.Marshal(outs)
	fmt.Println(string(b))
}

// ---------------------------------------------------------------------------
// Free-running mode used by the race-detector stage: the same worlds on real parallel goroutines.

var raceSkipped int

func raceWorld(t *Tape) (mismatch string) {
	c := c20Prop{}.Gen(t, nil).(*c20Case)
	if c.Mode != "concurrent" {
		return ""
	}
	c.Env.Apply()
	n := len(c.Apps)
	r1 := make([]appOutcome, n)
	r2 := make([]appOutcome, n)
	decls := make([]*AppDecl, n)
	for i, a := range c.Apps {
		decls[i] = a.App
	}
	// The reference runs are sequential, so the Point hook can be on for them without blinding the detector
	// (it is off in the parallel part: its bookkeeping would order the goroutines). With it the step budget
	// applies: an application whose matcher backtracks beyond it (KF-C03-1) would otherwise search without
	// any bound in the parallel part, where nothing counts steps; such a world is skipped.
	restore := cli.VerifSetPoint(pointHook)
	for i, a := range c.Apps {
		resetWorld(decls...)
		r1[i] = runSolo(a, nil)
		resetWorld(decls...)
		r2[i] = runSolo(a, nil)
	}
	restore()
	for i := range c.Apps {
		if strings.HasPrefix(r1[i]["end"], "budget:") || strings.HasPrefix(r2[i]["end"], "budget:") {
			raceSkipped++
			return ""
		}
	}
	resetWorld(decls...)
	procs := make([]*Proc, n)
	insts := make([]*Instance, n)
	var wg sync.WaitGroup
	start := make(chan struct{})
	for i, a := range c.Apps {
		procs[i] = c20Proc(i, a)
		wg.Add(1)
		go func(i int, a *appCase) {
			defer wg.Done()
			<-start
			RunProc(procs[i], a.body(procs[i], &insts[i], nil))
		}(i, a)
	}
	close(start)
	finished := make(chan struct{})
	go func() { wg.Wait(); close(finished) }()
	select {
	case <-finished:
	case <-time.After(45 * time.Second):
		// every application finished alone a moment ago: together they block one another
		return "HANG: the applications did not all finish when run in parallel goroutines"
	}
	for i := range c.Apps {
		stable := map[string]bool{}
		cmp := comparableFields(r1[i], c.Apps[i].Stream)
		for k := range r1[i] {
			if r1[i][k] == r2[i][k] && cmp[k] {
				stable[k] = true
			}
		}
		got := outcomeOf(procs[i], insts[i])
		if d := diffOutcome(r1[i], got, stable); d != "" {
			return fmt.Sprintf("application %d (%s): %s", i, c.Apps[i].Kind, d)
		}
	}
	return ""
}
