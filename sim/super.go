package main

import (
	"bytes"
	"encoding/json"
	"fmt"
	"os"
	"os/exec"
	"path/filepath"
	"runtime"
	"sort"
	"strconv"
	"strings"
	"sync"
	"time"
)

// ---------------------------------------------------------------------------
// Worker: runs its share of the cases of every phase (case i belongs to worker i mod W, so
// the set of cases never depends on the number of workers or on timing).

type WorkerResult struct {
	Stats      *Stats        `json:"stats"`
	Violations []*ReplayFile `json:"violations"`
	Nominated  [][2]int      `json:"nominated"` // (phase, index) of cases that exceeded a budget
	Done       bool          `json:"done"`
}

const maxViolationsPerWorker = 3

func shrinkBudget() (int, time.Duration) { return 2000, 60 * time.Second }

func workerMain(f flags, rest []string) int {
	if len(rest) != 1 || properties[rest[0]] == nil {
		return 2
	}
	p := properties[rest[0]]
	tier := f.str("tier", "quick")
	seed, _ := strconv.ParseUint(f.str("seed", "1"), 10, 64)
	w, W := f.int("w", 0), f.int("W", 1)
	startPhase, startIdx := f.int("start-phase", 0), f.int("start-idx", -1)
	dir := f.str("dir", ".")
	deadline := time.Unix(int64(f.int("deadline", 0)), 0)
	sampleMod := uint64(f.int("sample-mod", 1))
	installSeams()

	prog, err := os.OpenFile(filepath.Join(dir, fmt.Sprintf("progress.%d", w)), os.O_CREATE|os.O_WRONLY, 0o644)
	if err != nil {
		fmt.Fprintln(os.Stderr, "worker: ", err)
		return 2
	}
	st := NewStats(sampleMod)
	res := &WorkerResult{Stats: st}
	t0 := time.Now()
	phases := p.Phases(tier)
	var buf [48]byte
outer:
	for pi := startPhase; pi < len(phases); pi++ {
		ph := &phases[pi]
		first := w
		if pi == startPhase && startIdx >= 0 {
			first = startIdx
		}
		for i := first; i < ph.Count; i += W {
			if (i/W)&63 == 0 && f.int("deadline", 0) > 0 && time.Now().After(deadline) {
				st.Cut = true
				break outer
			}
			line := fmt.Sprintf("%d %d\n", pi, i)
			n := copy(buf[:], line)
			for k := n; k < len(buf); k++ {
				buf[k] = ' '
			}
			prog.WriteAt(buf[:], 0)
			t := TapeFor(seed, p.ID(), pi, ph, i)
			v, c, rec := runCase(p, ph, t, st)
			if v == nil {
				continue
			}
			if v.Nominate {
				st.Count("budget_nominations")
				if len(res.Nominated) < 8 {
					res.Nominated = append(res.Nominated, [2]int{pi, i})
				}
				continue
			}
			if k := isKnown(p.ID(), v.Known); k != nil {
				st.Known[k.ID]++
				if _, ok := st.KnownEx[k.ID]; !ok {
					st.KnownEx[k.ID] = map[string]interface{}{"case": c.Describe(), "detail": v.Detail}
				}
				continue
			}
			rf := buildReplay(p, ph, pi, i, seed, v, c, rec, true)
			res.Violations = append(res.Violations, rf)
			if len(res.Violations) >= maxViolationsPerWorker {
				break outer
			}
		}
	}
	copy(buf[:], "done\n")
	prog.WriteAt(buf[:], 0)
	prog.Close()
	st.Finish()
	st.WallS = time.Since(t0).Seconds()
	res.Done = true
	b, _ := json.Marshal(res)
	if err := os.WriteFile(filepath.Join(dir, fmt.Sprintf("result.%d.json", w)), b, 0o644); err != nil {
		fmt.Fprintln(os.Stderr, "worker: ", err)
		return 2
	}
	return 0
}

// buildReplay shrinks a violating tape (same property, same oracle clause, not a known finding)
// and assembles the replay file.
func buildReplay(p Property, ph *PhaseCfg, pi, idx int, seed uint64, v *Violation, c Case, rec []uint64, shrink bool) *ReplayFile {
	rf := &ReplayFile{Property: p.ID(), Clause: v.Clause, Detail: v.Detail, Seed: seed, Phase: *ph, PhaseIdx: pi, CaseIdx: idx,
		Tape: rec, Case: c.Describe(), Expected: v.Expected, Observed: v.Observed}
	if !shrink {
		return rf
	}
	maxExec, maxDur := shrinkBudget()
	t0 := time.Now()
	scratch := NewStats(1)
	best, execs := Shrink(rec, maxExec, func(vals []uint64) (bool, []uint64) {
		if time.Since(t0) > maxDur {
			return false, nil
		}
		t := ReplayTape(vals)
		v2, _, used := runCase(p, ph, t, scratch)
		if v2 == nil || v2.Clause != v.Clause || isKnown(p.ID(), v2.Known) != nil {
			return false, nil
		}
		return true, used
	})
	// re-run the minimised tape to fill in the report
	t := ReplayTape(best)
	v2, c2, _ := runCase(p, ph, t, scratch)
	if v2 != nil && v2.Clause == v.Clause {
		rf.Tape, rf.Case, rf.Detail, rf.Expected, rf.Observed = best, c2.Describe(), v2.Detail, v2.Expected, v2.Observed
		rf.Shrunk = true
	}
	rf.ShrinkExecs = execs
	return rf
}

// ---------------------------------------------------------------------------
// Solo: one case in this process. Exit 0 = no violation, 3 = violation (JSON on stdout).

type SoloResult struct {
	Violation *Violation  `json:"violation"`
	Case      interface{} `json:"case"`
	Tape      []uint64    `json:"tape"`
	Known     bool        `json:"known"`
}

func soloMain(f flags, rest []string) int {
	installSeams()
	var p Property
	var ph PhaseCfg
	var t *Tape
	if path := f.str("replay", ""); path != "" {
		rf, err := readReplay(path)
		if err != nil {
			fmt.Fprintln(os.Stderr, err)
			return 2
		}
		if rf.History != nil {
			return soloHistory(rf)
		}
		p = properties[rf.Property]
		ph = rf.Phase
		t = ReplayTape(rf.Tape)
	} else {
		if len(rest) != 1 || properties[rest[0]] == nil {
			return 2
		}
		p = properties[rest[0]]
		seed, _ := strconv.ParseUint(f.str("seed", "1"), 10, 64)
		phases := p.Phases(f.str("tier", "quick"))
		pi := f.int("phase", 0)
		ph = phases[pi]
		t = TapeFor(seed, p.ID(), pi, &ph, f.int("idx", 0))
	}
	if p == nil {
		return 2
	}
	if f.str("c20-solo-outcomes", "") != "" {
		c20SoloOutcomes(t, f.int("only", -1))
		return 0
	}
	if f.str("gen-only", "") != "" {
		c := p.Gen(t, &ph)
		b, _ := json.Marshal(SoloResult{Case: c.Describe(), Tape: t.Rec})
		fmt.Println(string(b))
		return 0
	}
	if f.str("nobudget", "") != "" {
		liftBudgets = true
	}
	st := NewStats(1)
	v, c, rec := runCase(p, &ph, t, st)
	out := SoloResult{Violation: v, Case: c.Describe(), Tape: rec}
	if v != nil && isKnown(p.ID(), v.Known) != nil {
		out.Known = true
	}
	b, _ := json.Marshal(out)
	fmt.Println(string(b))
	if v != nil && !out.Known {
		return 3
	}
	return 0
}

var liftBudgets bool

// soloHistory re-runs, in this fresh process, every case the worker ran before the recorded one (same order), then the
// recorded case, and reports the verdict of that last case: for violations that only show once the process has a history.
func soloHistory(rf *ReplayFile) int {
	p := properties[rf.Property]
	h := rf.History
	phases := p.Phases(h.Tier)
	st := NewStats(1)
	var last *Violation
	var lastCase Case
	var lastRec []uint64
	for pi := 0; pi <= rf.PhaseIdx && pi < len(phases); pi++ {
		ph := &phases[pi]
		for i := h.Worker; i < ph.Count; i += h.Workers {
			if pi == rf.PhaseIdx && i > rf.CaseIdx {
				break
			}
			t := TapeFor(rf.Seed, p.ID(), pi, ph, i)
			v, c, rec := runCase(p, ph, t, st)
			if pi == rf.PhaseIdx && i == rf.CaseIdx {
				last, lastCase, lastRec = v, c, rec
			}
		}
	}
	out := SoloResult{Violation: last, Tape: lastRec}
	if lastCase != nil {
		out.Case = lastCase.Describe()
	}
	b, _ := json.Marshal(out)
	fmt.Println(string(b))
	if last != nil && isKnown(p.ID(), last.Known) == nil {
		return 3
	}
	return 0
}

func readReplay(path string) (*ReplayFile, error) {
	b, err := os.ReadFile(path)
	if err != nil {
		return nil, err
	}
	rf := &ReplayFile{}
	if err := json.Unmarshal(b, rf); err != nil {
		return nil, err
	}
	if properties[rf.Property] == nil {
		return nil, fmt.Errorf("replay file names unknown property %q", rf.Property)
	}
	return rf, nil
}

type childOutcome struct {
	exit    int
	died    bool // killed by a signal / Go runtime fatal error / unexpected exit status
	hung    bool
	stdout  []byte
	stderr  []byte
	elapsed time.Duration
}

func runChild(timeout time.Duration, args ...string) childOutcome {
	self, _ := os.Executable()
	cmd := exec.Command(self, args...)
	var so, se bytes.Buffer
	cmd.Stdout, cmd.Stderr = &so, &cappedWriter{max: 64 << 10, b: &se}
	cmd.Env = os.Environ()
	t0 := time.Now()
	if err := cmd.Start(); err != nil {
		return childOutcome{exit: 2, died: true, stderr: []byte(err.Error())}
	}
	done := make(chan error, 1)
	go func() { done <- cmd.Wait() }()
	var co childOutcome
	select {
	case err := <-done:
		co.exit = cmd.ProcessState.ExitCode()
		if err != nil && co.exit != 3 {
			co.died = true
		}
	case <-time.After(timeout):
		cmd.Process.Kill()
		<-done
		co.hung = true
		co.exit = -1
	}
	co.stdout, co.stderr, co.elapsed = so.Bytes(), se.Bytes(), time.Since(t0)
	return co
}

type cappedWriter struct {
	max int
	b   *bytes.Buffer
}

func (c *cappedWriter) Write(p []byte) (int, error) {
	if room := c.max - c.b.Len(); room > 0 {
		if len(p) > room {
			c.b.Write(p[:room])
		} else {
			c.b.Write(p)
		}
	}
	return len(p), nil
}

// replayMain re-executes a replay file in a fresh OS process and reports whether the recorded
// violation (same property, same clause) occurs again.
func replayMain(path string) int {
	rf, err := readReplay(path)
	if err != nil {
		fmt.Fprintln(os.Stderr, "HARNESS-ERROR", err)
		return 2
	}
	ok, how := reproduces(rf, path)
	if ok {
		fmt.Printf("reproduced: %s\n", how)
		fmt.Printf("VIOLATION property=%s replay=%s\n", rf.Property, path)
		return 1
	}
	fmt.Printf("NOT REPRODUCED: %s\n", how)
	return 0
}

const mapOrderRetries = 20

func reproduces(rf *ReplayFile, path string) (bool, string) {
	if rf.Crash == "race" {
		return reproducesRace(rf)
	}
	attempts := 1
	if strings.Contains(rf.Clause, "map-order") {
		attempts = mapOrderRetries
	}
	how := ""
	for a := 0; a < attempts; a++ {
		args := []string{"solo", "--replay", path}
		if rf.Crash != "" {
			args = append(args, "--nobudget")
		}
		timeout := 90 * time.Second
		if rf.History != nil {
			timeout = 10 * time.Minute
		}
		co := runChild(timeout, args...)
		switch {
		case rf.Crash != "":
			if co.died || co.hung {
				return true, fmt.Sprintf("the process %s again (attempt %d)", map[bool]string{true: "hung", false: "died"}[co.hung], a+1)
			}
			how = fmt.Sprintf("the process ended normally (exit %d)", co.exit)
		case co.exit == 3:
			var sr SoloResult
			if json.Unmarshal(bytes.TrimSpace(co.stdout), &sr) == nil && sr.Violation != nil && sr.Violation.Clause == rf.Clause {
				return true, fmt.Sprintf("clause %q failed again: %s (attempt %d)", rf.Clause, sr.Violation.Detail, a+1)
			}
			how = "a different clause failed: " + string(co.stdout)
		case co.died || co.hung:
			how = "the child process died or hung: " + tail(string(co.stderr), 400)
		default:
			how = "no violation on re-execution"
		}
	}
	return false, how
}

func tail(s string, n int) string {
	if len(s) > n {
		return s[len(s)-n:]
	}
	return s
}

// ---------------------------------------------------------------------------
// Supervisor

type tierCfg struct {
	wallCap   time.Duration
	sampleMod int
	stall     time.Duration
}

func tierConfig(p Property, tier string) tierCfg {
	c := tierCfg{wallCap: 150 * time.Second, sampleMod: 1, stall: 60 * time.Second}
	if tier == "thorough" {
		c.wallCap = 25 * time.Minute
		c.sampleMod = 1
	}
	if s := envInt("VERIF_WALL_S", 0); s > 0 {
		c.wallCap = time.Duration(s) * time.Second
	}
	if p.ID() == "C03" {
		c.stall = 30 * time.Second
	}
	return c
}

var raceInfo map[string]interface{}
var raceHarnessErr string

type candidate struct {
	phase, idx int
	hung       bool
	log        string
}

func superviseCheck(p Property, tier string, seed uint64) int {
	t0 := time.Now()
	home := verifHome()
	W := envInt("VERIF_WORKERS", runtime.NumCPU())
	if W > 16 {
		W = 16
	}
	if W < 1 {
		W = 1
	}
	cfg := tierConfig(p, tier)
	dir, err := os.MkdirTemp(filepath.Join(home, ".work"), p.ID()+"-")
	if err != nil {
		os.MkdirAll(filepath.Join(home, ".work"), 0o755)
		dir, err = os.MkdirTemp(filepath.Join(home, ".work"), p.ID()+"-")
		if err != nil {
			fmt.Println("HARNESS-ERROR cannot create work dir:", err)
			return 2
		}
	}
	defer os.RemoveAll(dir)
	os.MkdirAll(filepath.Join(outHome(), "replays"), 0o755)
	os.MkdirAll(filepath.Join(outHome(), "evidence"), 0o755)
	fmt.Printf("check %s tier=%s seed=%d workers=%d\n", p.ID(), tier, seed, W)
	deadline := time.Now().Add(cfg.wallCap)

	merged := NewStats(1)
	var mu sync.Mutex
	var violations []*ReplayFile
	var candidates []candidate
	harnessErr := ""
	restarts := 0
	const maxRestarts = 40

	var wg sync.WaitGroup
	nw := W
	if os.Getenv("VERIF_ONLY_RACE_STAGE") != "" && p.ID() == "C20" {
		nw = 0 // self-test of the race-detector stage alone
	}
	for w := 0; w < nw; w++ {
		wg.Add(1)
		go func(w int) {
			defer wg.Done()
			startPhase, startIdx := 0, -1
			for {
				args := []string{"worker", p.ID(), "--tier", tier, "--seed", strconv.FormatUint(seed, 10), "--w", strconv.Itoa(w), "--W", strconv.Itoa(W),
					"--dir", dir, "--deadline", strconv.FormatInt(deadline.Unix(), 10), "--sample-mod", strconv.Itoa(cfg.sampleMod),
					"--start-phase", strconv.Itoa(startPhase), "--start-idx", strconv.Itoa(startIdx)}
				died, hung, log := runWorker(dir, w, cfg.stall, deadline.Add(2*time.Minute), args)
				resPath := filepath.Join(dir, fmt.Sprintf("result.%d.json", w))
				if !died && !hung {
					b, err := os.ReadFile(resPath)
					var wr WorkerResult
					if err != nil || json.Unmarshal(b, &wr) != nil || !wr.Done {
						mu.Lock()
						harnessErr = fmt.Sprintf("worker %d left no result: %v %s", w, err, tail(log, 2000))
						mu.Unlock()
						return
					}
					os.Remove(resPath)
					mu.Lock()
					merged.Merge(wr.Stats)
					violations = append(violations, wr.Violations...)
					for _, n := range wr.Nominated {
						candidates = append(candidates, candidate{n[0], n[1], false, "exceeded a simulator budget inside the worker"})
					}
					mu.Unlock()
					return
				}
				// the worker died or stalled: the case it was running is a candidate
				pi, idx, ok := readProgress(dir, w)
				if !ok {
					mu.Lock()
					harnessErr = fmt.Sprintf("worker %d died before its first case: %s", w, tail(log, 2000))
					mu.Unlock()
					return
				}
				mu.Lock()
				candidates = append(candidates, candidate{pi, idx, hung, tail(log, 3000)})
				merged.Count("worker_deaths")
				restarts++
				tooMany := restarts > maxRestarts
				mu.Unlock()
				if tooMany || time.Now().After(deadline) {
					return
				}
				startPhase, startIdx = pi, idx+W
			}
		}(w)
	}
	wg.Wait()
	if harnessErr != "" {
		fmt.Println("HARNESS-ERROR", harnessErr)
		return 2
	}

	phases := p.Phases(tier)
	// confirm the process-level candidates, each alone in a fresh process with lifted budgets
	sort.Slice(candidates, func(i, j int) bool {
		if candidates[i].phase != candidates[j].phase {
			return candidates[i].phase < candidates[j].phase
		}
		return candidates[i].idx < candidates[j].idx
	})
	confirmed := 0
	confirmStart := time.Now()
	// how long a case may run alone, budgets lifted, before it counts as not finishing; and for all of them together
	confirmEach, confirmTotal := 60*time.Second, 6*time.Minute
	if tier != "thorough" {
		confirmEach, confirmTotal = 20*time.Second, 50*time.Second
	}
	for _, c := range candidates {
		if confirmed >= 3 {
			break
		}
		if time.Since(confirmStart) > confirmTotal {
			// a nomination is not a violation; what is left unconfirmed is only counted
			merged.Count("nominations_left_unconfirmed")
			continue
		}
		ph := phases[c.phase]
		base := []string{"solo", p.ID(), "--tier", tier, "--seed", strconv.FormatUint(seed, 10), "--phase", strconv.Itoa(c.phase), "--idx", strconv.Itoa(c.idx)}
		co := runChild(confirmEach, append(base, "--nobudget")...)
		if !co.died && !co.hung {
			if co.exit == 3 {
				// an ordinary violation that shows only alone: report it through the normal path
				var sr SoloResult
				if json.Unmarshal(bytes.TrimSpace(co.stdout), &sr) == nil && sr.Violation != nil {
					violations = append(violations, &ReplayFile{Property: p.ID(), Clause: sr.Violation.Clause, Detail: sr.Violation.Detail, Seed: seed, Phase: ph,
						PhaseIdx: c.phase, CaseIdx: c.idx, Tape: sr.Tape, Case: sr.Case, Expected: sr.Violation.Expected, Observed: sr.Violation.Observed})
				}
				continue
			}
			merged.Count("candidates_not_confirmed")
			fmt.Printf("slow case: phase %d case %d exceeded a budget inside the worker but finished alone in %.1fs with the budgets lifted (not a violation)\n", c.phase, c.idx, co.elapsed.Seconds())
			continue
		}
		// genuine: the process dies or hangs on this case. Get the case description and tape.
		gen := runChild(30*time.Second, append(base, "--gen-only")...)
		var sr SoloResult
		json.Unmarshal(bytes.TrimSpace(gen.stdout), &sr)
		kind := "died"
		if co.hung {
			kind = "hung"
			// The process was still making progress in the matcher when the clock ran out (heartbeats of the
			// lifted-budget run say so): exponential backtracking, not an endless loop or recursion, which
			// the stuck-loop, compile and depth budgets catch on their own.
			if strings.Count(string(co.stderr), "HEARTBEAT") >= 2 && !strings.Contains(string(co.stderr), "phase=compile") {
				if p.ID() != "C03" {
					// promptness is C03's subject: for the other properties a matcher that is still searching is not a verdict
					merged.Count("slow_cases_still_backtracking_when_the_clock_ran_out")
					fmt.Printf("slow case: phase %d case %d was still backtracking in the matcher after %v alone with the budgets lifted (C03's subject, not a violation of %s)\n", c.phase, c.idx, confirmEach, p.ID())
					continue
				}
				if k := isKnown(p.ID(), "KF-C03-1"); k != nil {
					merged.Known[k.ID]++
					if _, ok := merged.KnownEx[k.ID]; !ok {
						gen := runChild(30*time.Second, append(base, "--gen-only")...)
						var sr SoloResult
						json.Unmarshal(bytes.TrimSpace(gen.stdout), &sr)
						merged.KnownEx[k.ID] = sr.Case
					}
					continue
				}
			}
		}
		rf := &ReplayFile{Property: p.ID(), Clause: "process-" + kind, Detail: fmt.Sprintf("the process running the library %s on this case (confirmed alone in a fresh process, budgets lifted, %v)", kind, confirmEach),
			Seed: seed, Phase: ph, PhaseIdx: c.phase, CaseIdx: c.idx, Tape: sr.Tape, Case: sr.Case, Crash: kind, CrashLog: crashSummary(string(co.stderr))}
		rf = shrinkCrash(rf, dir)
		violations = append(violations, rf)
		confirmed++
	}

	var race *raceStageResult
	if p.ID() == "C20" {
		race = raceStage(tier, seed, dir, time.Now().Add(cfg.wallCap/2))
		if race.HarnessErr != "" {
			// reported at the end: violations already found by the scheduled stage must not be lost
			raceHarnessErr = race.HarnessErr
		}
		violations = append(violations, race.Violations...)
		merged.Add("race_stage.worlds", int64(race.Worlds))
		raceInfo = map[string]interface{}{"ran": race.Ran, "worlds_run_in_parallel_goroutines": race.Worlds, "race_worker_processes": race.Workers, "wall_s": race.WallS,
			"note": "free-running goroutines under the Go race detector; interleavings are not decided by the simulator in this stage (see DESIGN.md 3.11)"}
	}

	// write, confirm and report violations
	sort.Slice(violations, func(i, j int) bool {
		if violations[i].PhaseIdx != violations[j].PhaseIdx {
			return violations[i].PhaseIdx < violations[j].PhaseIdx
		}
		return violations[i].CaseIdx < violations[j].CaseIdx
	})
	reported := 0
	exit := 0
	for _, rf := range violations {
		if reported >= 3 {
			break
		}
		path := filepath.Join(outHome(), "replays", fmt.Sprintf("%s-%d-%d-%d.json", rf.Property, seed, rf.PhaseIdx, rf.CaseIdx))
		os.WriteFile(path, []byte(mustJSON(rf)), 0o644)
		ok, how := reproduces(rf, path)
		if !ok && rf.Crash == "" {
			// Not alone in a fresh process. With the history of the worker that found it? (state accumulated in the process)
			hrf := *rf
			hrf.History = &HistorySpec{Tier: tier, Worker: rf.CaseIdx % W, Workers: W}
			hrf.Shrunk = false
			hrf.Detail = "(only after the cases the same worker process ran before it: state accumulates in the process) " + rf.Detail
			os.WriteFile(path, []byte(mustJSON(&hrf)), 0o644)
			if ok2, how2 := reproduces(&hrf, path); ok2 {
				rf, ok, how = &hrf, true, how2+" - with the worker's history replayed in a fresh process"
			} else {
				os.WriteFile(path, []byte(mustJSON(rf)), 0o644)
			}
		}
		if !ok {
			fmt.Printf("HARNESS-ERROR a violation of %s (clause %s) did not reproduce in a fresh process: %s (replay kept at %s)\n", rf.Property, rf.Clause, how, path)
			if exit == 0 {
				exit = 2
			}
			continue
		}
		fmt.Printf("violation: clause=%s %s\n  %s\n", rf.Clause, rf.Detail, how)
		fmt.Printf("VIOLATION property=%s replay=%s\n", rf.Property, path)
		reported++
		exit = 1
	}
	if raceHarnessErr != "" {
		fmt.Println("HARNESS-ERROR", raceHarnessErr)
		if exit == 0 {
			exit = 2
		}
	}
	for id, n := range merged.Known {
		e := isKnown(p.ID(), id)
		fmt.Printf("KNOWN-FINDING: property=%s %s %s (hit %d times in this run)\n", p.ID(), id, e.What, n)
	}
	wall := time.Since(t0).Seconds()
	if err := writeEvidence(p, tier, seed, merged, len(violations), wall, W); err != nil {
		fmt.Println("HARNESS-ERROR cannot write evidence:", err)
		return 2
	}
	fmt.Printf("%s: %d cases, %d distinct non-trivial, %d violations, %.1fs%s\n", p.ID(), merged.Evals, len(merged.distinct), len(violations), wall,
		map[bool]string{true: " (cut by the wall-clock cap)", false: ""}[merged.Cut])
	return exit
}

func crashSummary(stderr string) string {
	lines := strings.Split(stderr, "\n")
	if len(lines) > 12 {
		lines = lines[:12]
	}
	return strings.Join(lines, "\n")
}

// shrinkCrash minimises a crashing tape; every attempt is a subprocess, capped at 60 attempts.
func shrinkCrash(rf *ReplayFile, dir string) *ReplayFile {
	if len(rf.Tape) == 0 {
		return rf
	}
	tmp := filepath.Join(dir, "shrink.json")
	t0 := time.Now()
	attempt := func(vals []uint64) (bool, []uint64) {
		if time.Since(t0) > 3*time.Minute {
			return false, nil
		}
		c := *rf
		c.Tape = vals
		os.WriteFile(tmp, []byte(mustJSON(&c)), 0o644)
		co := runChild(20*time.Second, "solo", "--replay", tmp, "--nobudget")
		if co.died || co.hung {
			return true, vals
		}
		return false, nil
	}
	best, execs := Shrink(rf.Tape, 60, attempt)
	c := *rf
	c.Tape = best
	os.WriteFile(tmp, []byte(mustJSON(&c)), 0o644)
	gen := runChild(30*time.Second, "solo", "--replay", tmp, "--gen-only")
	var sr SoloResult
	if json.Unmarshal(bytes.TrimSpace(gen.stdout), &sr) == nil && sr.Case != nil {
		c.Case = sr.Case
		c.Shrunk = true
		c.ShrinkExecs = execs
		return &c
	}
	return rf
}

func readProgress(dir string, w int) (int, int, bool) {
	b, err := os.ReadFile(filepath.Join(dir, fmt.Sprintf("progress.%d", w)))
	if err != nil {
		return 0, 0, false
	}
	var pi, idx int
	if n, _ := fmt.Sscanf(string(b), "%d %d", &pi, &idx); n != 2 {
		return 0, 0, false
	}
	return pi, idx, true
}

// runWorker runs one worker process; it is killed when its progress file stops changing for
// `stall` or when the hard deadline passes. Its stderr goes to a file (never an undrained pipe).
func runWorker(dir string, w int, stall time.Duration, hard time.Time, args []string) (died, hung bool, log string) {
	self, _ := os.Executable()
	cmd := exec.Command(self, args...)
	logPath := filepath.Join(dir, fmt.Sprintf("worker.%d.log", w))
	lf, _ := os.Create(logPath)
	cmd.Stdout, cmd.Stderr = lf, lf
	cmd.Env = os.Environ()
	if err := cmd.Start(); err != nil {
		lf.Close()
		return true, false, err.Error()
	}
	done := make(chan error, 1)
	go func() { done <- cmd.Wait() }()
	progPath := filepath.Join(dir, fmt.Sprintf("progress.%d", w))
	last := ""
	lastChange := time.Now()
	tick := time.NewTicker(500 * time.Millisecond)
	defer tick.Stop()
	for {
		select {
		case err := <-done:
			lf.Close()
			b, _ := os.ReadFile(logPath)
			return err != nil, false, tailBytes(b, 8000)
		case <-tick.C:
			b, _ := os.ReadFile(progPath)
			if s := string(b); s != last {
				last = s
				lastChange = time.Now()
			}
			if time.Since(lastChange) > stall || time.Now().After(hard) {
				cmd.Process.Kill()
				<-done
				lf.Close()
				b, _ := os.ReadFile(logPath)
				return false, true, tailBytes(b, 8000)
			}
		}
	}
}

func tailBytes(b []byte, n int) string {
	// the head of a Go crash log is the informative part
	if len(b) > n {
		return string(b[:n])
	}
	return string(b)
}
