package main

import (
	"fmt"
)

func selftestMain(what string, f flags, rest []string) int {
	fmt.Println("selftest", what, "not implemented yet")
	return 2
}
