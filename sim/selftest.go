package main

import (
	"bytes"
	"encoding/json"
	"fmt"
	"os"
	"os/exec"
	"path/filepath"
	"sort"
	"strconv"
	"strings"
	"time"
)

// Self-tests of the machinery.
//
//   selftest determinism [--props C05,C20] [--seeds 3] [--cases 300] [--procs 10]
//     For every claimed property: the first `cases` cases of every phase, for `seeds` seeds, are
//     executed twice in one process and their execution digests compared; then the same digests
//     are recomputed in `procs` fresh OS processes at GOMAXPROCS 1, 4 and 16 and compared.
//     The digest of a case covers the generated case, the verdict, and the trace of every Point,
//     callback event, exit and scheduler grant in global order.
//   selftest digests <ID> --seed S --cases N       (internal: prints one digest per case)
//   selftest shrink                                 sanity check of the tape shrinker

func caseDigest(p Property, ph *PhaseCfg, pi int, seed uint64, idx int) string {
	t := TapeFor(seed, p.ID(), pi, ph, idx)
	tracing, trace = true, 0
	st := NewStats(1)
	v, c, rec := runCase(p, ph, t, st)
	tracing = false
	desc, _ := json.Marshal(c.Describe())
	clause := "-"
	if v != nil {
		clause = v.Clause
	}
	return fmt.Sprintf("%016x %016x %s %d", fnv64(string(desc)), trace, clause, len(rec))
}

func digestsFor(p Property, seed uint64, cases int) []string {
	out := []string{}
	phases := p.Phases("quick")
	for pi := range phases {
		ph := &phases[pi]
		n := cases
		if ph.Count < n {
			n = ph.Count
		}
		// spread the sample over the phase
		step := ph.Count / n
		if step < 1 {
			step = 1
		}
		for k := 0; k < n; k++ {
			idx := k * step
			out = append(out, fmt.Sprintf("%s %d %d %s", p.ID(), pi, idx, caseDigest(p, ph, pi, seed, idx)))
		}
	}
	return out
}

func selftestMain(what string, f flags, rest []string) int {
	switch what {
	case "digests":
		if len(rest) != 1 || properties[rest[0]] == nil {
			return 2
		}
		installSeams()
		seed, _ := strconv.ParseUint(f.str("seed", "1"), 10, 64)
		for _, l := range digestsFor(properties[rest[0]], seed, f.int("cases", 100)) {
			fmt.Println(l)
		}
		return 0
	case "determinism":
		return selftestDeterminism(f)
	case "shrink":
		return selftestShrink()
	}
	usage()
	return 2
}

func selftestDeterminism(f flags) int {
	installSeams()
	t0 := time.Now()
	ids := propertyIDs()
	if s := f.str("props", ""); s != "" {
		ids = strings.Split(s, ",")
	}
	seeds, cases, procs := f.int("seeds", 3), f.int("cases", 300), f.int("procs", 10)
	self, _ := os.Executable()
	report := map[string]interface{}{}
	bad := 0
	for _, id := range ids {
		p := properties[id]
		if p == nil {
			continue
		}
		inproc, cross, total := 0, 0, 0
		var examples []string
		for s := 1; s <= seeds; s++ {
			seed := uint64(s)
			a := digestsFor(p, seed, cases)
			b := digestsFor(p, seed, cases)
			total += len(a)
			for i := range a {
				if a[i] != b[i] {
					inproc++
					if len(examples) < 5 {
						examples = append(examples, "same process: "+a[i]+" != "+b[i])
					}
				}
			}
			ref := strings.Join(a, "\n") + "\n"
			for k := 0; k < procs; k++ {
				gmp := []string{"1", "4", "16"}[k%3]
				cmd := exec.Command(self, "selftest", "digests", id, "--seed", strconv.Itoa(s), "--cases", strconv.Itoa(cases))
				cmd.Env = append(os.Environ(), "GOMAXPROCS="+gmp)
				var out bytes.Buffer
				cmd.Stdout = &out
				if err := cmd.Run(); err != nil {
					fmt.Println("HARNESS-ERROR selftest child failed:", err)
					return 2
				}
				if out.String() != ref {
					la, lb := strings.Split(ref, "\n"), strings.Split(out.String(), "\n")
					for i := range la {
						if i < len(lb) && la[i] != lb[i] {
							cross++
							if len(examples) < 5 {
								examples = append(examples, fmt.Sprintf("fresh process (GOMAXPROCS=%s): %s != %s", gmp, la[i], lb[i]))
							}
						}
					}
				}
			}
		}
		report[id] = map[string]interface{}{"cases_per_seed": total / seeds, "seeds": seeds, "same_process_mismatches": inproc, "fresh_process_mismatches": cross,
			"fresh_processes_per_seed": procs, "gomaxprocs": []int{1, 4, 16}, "examples": examples}
		fmt.Printf("%s: %d cases x %d seeds, same-process mismatches %d, fresh-process mismatches %d (over %d processes per seed)\n", id, total/seeds, seeds, inproc, cross, procs)
		for _, e := range examples {
			fmt.Println("   ", e)
		}
		bad += inproc + cross
	}
	report["wall_s"] = time.Since(t0).Seconds()
	keys := []string{}
	for k := range report {
		keys = append(keys, k)
	}
	sort.Strings(keys)
	os.MkdirAll(filepath.Join(outHome(), "evidence"), 0o755)
	os.WriteFile(filepath.Join(outHome(), "evidence", "selftest-determinism.json"), []byte(mustJSON(report)), 0o644)
	if bad > 0 {
		fmt.Println("DETERMINISM: mismatches found")
		return 1
	}
	fmt.Println("DETERMINISM: ok")
	return 0
}

func selftestShrink() int {
	// a failing predicate: the tape contains a value >= 7 at some position followed (anywhere later) by a 3
	fails := func(vals []uint64) (bool, []uint64) {
		seen := false
		for _, v := range vals {
			if v >= 7 {
				seen = true
			} else if seen && v == 3 {
				return true, vals
			}
		}
		return false, nil
	}
	start := []uint64{1, 9, 4, 4, 12, 0, 3, 5, 3, 2}
	best, execs := Shrink(start, 2000, fails)
	fmt.Println("shrunk", start, "to", best, "in", execs, "executions")
	if len(best) != 2 || best[0] != 7 || best[1] != 3 {
		fmt.Println("SHRINK: unexpected minimum")
		return 1
	}
	fmt.Println("SHRINK: ok")
	return 0
}
