package main

import (
	"encoding/json"
	"fmt"
	"sort"
)

// A property check is a set of phases. A phase is either seeded (case i of the phase is
// generated from the tape seeded with mix(VERIF_SEED, property, phase, i)) or enumerated
// (case i is generated from the tape holding the mixed-radix digits of i, so that the
// phase sweeps a finite fault space completely). Generation is pure: it never touches the
// library; Exec runs the simulated world and applies the oracle.

type PhaseCfg struct {
	Name  string
	Count int            // number of cases (enumerated: size of the space)
	Radix []int          // enumerated phases: the radices of the digits, in draw order
	P     map[string]int // phase parameters
}

func (ph *PhaseCfg) Enum() bool { return ph.Radix != nil }

type Case interface {
	Describe() interface{}
}

type Violation struct {
	Clause   string      `json:"clause"`
	Detail   string      `json:"detail"`
	Expected interface{} `json:"expected,omitempty"`
	Observed interface{} `json:"observed,omitempty"`
	Known    string      `json:"known,omitempty"`    // id of the known finding whose predicate this case matches
	Nominate bool        `json:"nominate,omitempty"` // a budget was exceeded: only a re-run alone, with budgets lifted, decides
}

type Property interface {
	ID() string
	Phases(tier string) []PhaseCfg
	Gen(t *Tape, ph *PhaseCfg) Case
	Exec(c Case, st *Stats) *Violation
	Rule() string // how cases are generated and what makes one distinct and non-trivial
}

var properties = map[string]Property{}

func register(p Property) { properties[p.ID()] = p }

func propertyIDs() []string {
	ids := []string{}
	for id := range properties {
		ids = append(ids, id)
	}
	sort.Strings(ids)
	return ids
}

// TapeFor returns the tape of case idx of a phase.
func TapeFor(seed uint64, prop string, phaseIdx int, ph *PhaseCfg, idx int) *Tape {
	if ph.Enum() {
		vals := make([]uint64, len(ph.Radix))
		x := idx
		for k, r := range ph.Radix {
			vals[k] = uint64(x % r)
			x /= r
		}
		if ph.P["seeded_tail"] == 1 {
			return ReplayThenSeed(vals, mix(seed, fnv64(prop), uint64(phaseIdx), uint64(idx)))
		}
		return ReplayTape(vals)
	}
	return NewTape(mix(seed, fnv64(prop), uint64(phaseIdx), uint64(idx)))
}

func product(xs []int) int {
	p := 1
	for _, x := range xs {
		p *= x
	}
	return p
}

// ---------------------------------------------------------------------------
// Statistics gathered by a worker and merged by the supervisor

type Stats struct {
	Evals      int64                  `json:"evals"`
	Counters   map[string]int64       `json:"counters"`
	Distinct   []uint64               `json:"distinct"` // hashes of distinct non-trivial cases (filled at the end from the set)
	Samples    []interface{}          `json:"samples"`
	TotalSteps int64                  `json:"total_steps"`
	MaxSteps   int64                  `json:"max_steps"`
	Sites      map[string]int64       `json:"sites"`
	Known      map[string]int64       `json:"known"`    // known findings hit: id -> count
	KnownEx    map[string]interface{} `json:"known_ex"` // one example per known finding
	WallS      float64                `json:"wall_s"`
	Cut        bool                   `json:"cut"`  // the wall-clock cap ended the batch early
	Sets       map[string][]uint64    `json:"sets"` // further distinctness measures (e.g. schedules), filled at the end

	sets map[string]map[uint64]struct{}

	distinct   map[uint64]struct{}
	sampleMod  uint64
	wantSample int
}

func NewStats(sampleMod uint64) *Stats {
	if sampleMod == 0 {
		sampleMod = 1
	}
	return &Stats{Counters: map[string]int64{}, distinct: map[uint64]struct{}{}, Known: map[string]int64{}, KnownEx: map[string]interface{}{},
		Sites: map[string]int64{}, sampleMod: sampleMod, wantSample: 3, sets: map[string]map[uint64]struct{}{}, Sets: map[string][]uint64{}}
}

func (s *Stats) Count(key string)        { s.Counters[key]++ }
func (s *Stats) Add(key string, n int64) { s.Counters[key] += n }

// Nontrivial records the fingerprint of a distinct non-trivial case. Only fingerprints in the
// sampled residue class are kept (sampleMod 1 = all), which makes the reported count a lower bound.
func (s *Stats) Nontrivial(fp uint64) {
	if fp%s.sampleMod == 0 {
		s.distinct[fp] = struct{}{}
	}
}

// InSet records a member of a named distinctness measure (e.g. the hash of a schedule).
func (s *Stats) InSet(name string, h uint64) {
	m := s.sets[name]
	if m == nil {
		m = map[uint64]struct{}{}
		s.sets[name] = m
	}
	m[h] = struct{}{}
}

func (s *Stats) Sample(c interface{}) {
	if len(s.Samples) < s.wantSample {
		s.Samples = append(s.Samples, c)
	}
}

func (s *Stats) Finish() {
	s.Distinct = s.Distinct[:0]
	for h := range s.distinct {
		s.Distinct = append(s.Distinct, h)
	}
	for name, m := range s.sets {
		l := make([]uint64, 0, len(m))
		for h := range m {
			l = append(l, h)
		}
		s.Sets[name] = l
	}
	s.TotalSteps = totalSteps
	s.MaxSteps = maxSteps
	for k, v := range siteCounts {
		s.Sites[k] = v
	}
}

func (s *Stats) Merge(o *Stats) {
	s.Evals += o.Evals
	for k, v := range o.Counters {
		s.Counters[k] += v
	}
	for _, h := range o.Distinct {
		s.distinct[h] = struct{}{}
	}
	for _, x := range o.Samples {
		if len(s.Samples) < 6 {
			s.Samples = append(s.Samples, x)
		}
	}
	s.TotalSteps += o.TotalSteps
	if o.MaxSteps > s.MaxSteps {
		s.MaxSteps = o.MaxSteps
	}
	for k, v := range o.Sites {
		s.Sites[k] += v
	}
	for k, v := range o.Known {
		s.Known[k] += v
		if _, ok := s.KnownEx[k]; !ok {
			s.KnownEx[k] = o.KnownEx[k]
		}
	}
	if o.Cut {
		s.Cut = true
	}
	for name, l := range o.Sets {
		for _, h := range l {
			s.InSet(name, h)
		}
	}
}

// ---------------------------------------------------------------------------
// Replay files

type ReplayFile struct {
	Property    string       `json:"property"`
	Clause      string       `json:"clause"`
	Detail      string       `json:"detail"`
	Seed        uint64       `json:"seed"`
	Phase       PhaseCfg     `json:"phase"`
	PhaseIdx    int          `json:"phase_index"`
	CaseIdx     int          `json:"case_index"`
	Tape        []uint64     `json:"tape"`
	Shrunk      bool         `json:"shrunk"`
	ShrinkExecs int          `json:"shrink_execs"`
	Case        interface{}  `json:"case"`
	Expected    interface{}  `json:"expected,omitempty"`
	Observed    interface{}  `json:"observed,omitempty"`
	History     *HistorySpec `json:"history,omitempty"` // the violation needs the cases the worker ran before it (state accumulated in the process)
	Crash       string       `json:"crash,omitempty"`   // for process-level failures: "died" | "hung"
	CrashLog    string       `json:"crash_log,omitempty"`
}

// HistorySpec: replay = run, in one fresh process, the cases worker W of N ran (in its order) up to and including this one.
type HistorySpec struct {
	Tier    string `json:"tier"`
	Worker  int    `json:"worker"`
	Workers int    `json:"workers"`
}

func mustJSON(v interface{}) string {
	b, err := json.MarshalIndent(v, "", " ")
	if err != nil {
		return fmt.Sprintf("%#v", v)
	}
	return string(b)
}

// runCase generates and executes one case from a tape; it returns the violation (or nil),
// the case and the tape values consumed.
func runCase(p Property, ph *PhaseCfg, t *Tape, st *Stats) (*Violation, Case, []uint64) {
	c := p.Gen(t, ph)
	v := p.Exec(c, st)
	// Exec may draw too (the schedule of a scheduled world comes from the same tape)
	rec := append([]uint64(nil), t.Rec...)
	return v, c, rec
}

// shortArgv abbreviates a very long argument vector for descriptions (the replay file re-generates the real one from its tape).
func shortArgv(argv []string) []string {
	if len(argv) <= 40 {
		return argv
	}
	out := append([]string{}, argv[:20]...)
	out = append(out, fmt.Sprintf("... (%d more tokens) ...", len(argv)-25))
	return append(out, argv[len(argv)-5:]...)
}
