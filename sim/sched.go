package main

import (
	"fmt"
	"time"
)

// Cooperative scheduler: in a scheduled world every simulated process parks at each
// instrumented Point (and at each simulator-owned callback and stream write) and the
// scheduler, drawing from the tape, decides which parked process proceeds. Exactly one
// simulated process runs at any instant; the Go scheduler never decides who.

type Grant struct {
	Proc int
	Site string
}

type schedProc struct {
	p      *Proc
	resume chan struct{}
	done   bool
	site   string // where it is parked
	prio   int
	fn     func() error
}

type schedEvent struct {
	sp   *schedProc
	done bool
}

const (
	stratUniform = iota // uniform random choice at every Point
	stratPCT            // random priorities with d priority-change points
	stratCoarse         // switch at ~10% of the Points
	stratSerial         // run to completion in a random order
	numStrats
)

var stratNames = []string{"uniform", "pct", "coarse", "serial"}

type Sched struct {
	tape         *Tape
	procs        []*schedProc
	byProc       map[*Proc]*schedProc
	events       chan schedEvent
	Strategy     int
	Grants       []Grant
	Switches     int
	free         bool // lock fallback: nobody parks any more
	Uncontrolled bool
	Deadlock     bool
	hash         uint64
}

// lockSeen is set after the first lock-induced timeout of a batch: later worlds only
// switch between processes at process start and end.
var lockSeen bool

const schedStall = 2 * time.Second

func (s *Sched) yield(p *Proc, site string) {
	if s.free {
		return
	}
	// the process that parks is the one whose goroutine is calling, whatever object the caller
	// believes it is working for (a library that mixes up two applications makes one application's
	// goroutine run the other's callbacks)
	if q := current(); q != nil {
		p = q
	}
	sp := s.byProc[p]
	if sp == nil {
		return
	}
	sp.site = site
	s.events <- schedEvent{sp, false}
	<-sp.resume
}

// RunScheduled runs the bodies as concurrent simulated processes under the scheduler.
func RunScheduled(t *Tape, strategy int, procs []*Proc, bodies []func() error) *Sched {
	if lockSeen {
		strategy = stratSerial
	}
	s := &Sched{tape: t, byProc: map[*Proc]*schedProc{}, events: make(chan schedEvent), Strategy: strategy}
	for i, p := range procs {
		sp := &schedProc{p: p, resume: make(chan struct{}), fn: bodies[i], site: "start"}
		s.procs = append(s.procs, sp)
		s.byProc[p] = sp
	}
	gidMode = true
	theSched = s
	defer func() { theSched = nil; gidMode = false; cur = nil }()

	for _, sp := range s.procs {
		sp := sp
		go func() {
			<-sp.resume
			// deferred: a process that stops in the exit seam (runtime.Goexit) unwinds this goroutine too
			defer func() { s.events <- schedEvent{sp, true} }()
			done := make(chan struct{})
			procBody(sp.p, sp.fn, done)
		}()
	}

	live := len(s.procs)
	// PCT: initial priorities and change points
	changeAt := map[int]bool{}
	if strategy == stratPCT {
		perm := t.Perm(len(s.procs))
		for i, sp := range s.procs {
			sp.prio = perm[i] + 10
		}
		d := 1 + t.Draw(3)
		for i := 0; i < d; i++ {
			changeAt[t.Draw(400)] = true
		}
	}
	var order []int
	if strategy == stratSerial {
		order = t.Perm(len(s.procs))
	}
	last := -1
	step := 0
	lowPrio := 0
	for live > 0 {
		// choose
		var cand []int
		for i, sp := range s.procs {
			if !sp.done {
				cand = append(cand, i)
			}
		}
		pick := cand[0]
		switch strategy {
		case stratUniform:
			pick = cand[t.Draw(len(cand))]
		case stratCoarse:
			if last >= 0 && !s.procs[last].done && t.Draw(10) != 0 {
				pick = last
			} else {
				pick = cand[t.Draw(len(cand))]
			}
		case stratPCT:
			if changeAt[step] && last >= 0 {
				lowPrio--
				s.procs[last].prio = lowPrio
			}
			best := cand[0]
			for _, i := range cand {
				if s.procs[i].prio > s.procs[best].prio {
					best = i
				}
			}
			pick = best
		case stratSerial:
			for _, i := range order {
				if !s.procs[i].done {
					pick = i
					break
				}
			}
		}
		step++
		sp := s.procs[pick]
		if last >= 0 && pick != last {
			s.Switches++
		}
		last = pick
		g := Grant{pick, sp.site}
		if len(s.Grants) < 4096 {
			s.Grants = append(s.Grants, g)
		}
		s.hash = mix(s.hash, uint64(pick), fnv64(sp.site))
		cur = sp.p
		select {
		case sp.resume <- struct{}{}:
		case <-time.After(10 * schedStall):
			// the process is not where the scheduler left it: it is blocked inside the library
			s.Deadlock = true
			return s
		}
		select {
		case ev := <-s.events:
			if ev.done {
				ev.sp.done = true
				live--
			}
		case <-time.After(schedStall):
			// The granted process neither parked nor finished: it is blocked on something a parked
			// process holds (a lock added to the library). Release everybody and stop parking.
			s.Uncontrolled = true
			lockSeen = true
			s.free = true
			for _, o := range s.procs {
				if o != sp && !o.done {
					select {
					case o.resume <- struct{}{}:
					default:
					}
				}
			}
			deadline := time.After(60 * time.Second)
			for live > 0 {
				select {
				case ev := <-s.events:
					if ev.done {
						ev.sp.done = true
						live--
					} else {
						// a process that was already sending its park event: let it go on
						go func(o *schedProc) { o.resume <- struct{}{} }(ev.sp)
					}
				case <-deadline:
					s.Deadlock = true
					return s
				}
			}
		}
	}
	return s
}

func (s *Sched) Hash() uint64 { return s.hash }

func (s *Sched) DescribeGrants(max int) []string {
	out := []string{}
	for i, g := range s.Grants {
		if i >= max {
			out = append(out, fmt.Sprintf("... %d more", len(s.Grants)-max))
			break
		}
		out = append(out, fmt.Sprintf("p%d@%s", g.Proc, g.Site))
	}
	return out
}
