package main

import (
	"flag"
	"fmt"
	"strings"
)

// Multi-container phase of C06 / C15: several options (and an argument) in one application,
// listed individually or through OPTIONS / a folded group, given in any order and folded on the
// command line; two list options may share one default slice object of the host program.
// Every variable is checked against the precedence model with the tokens the command line gave it.

type multiCase struct {
	App  *AppDecl
	DS   *DeclSet
	Argv []string
	Env  EnvState
	// MidEnv: the environment from declaration number MidAt on (nil = it does not change while the program declares)
	MidEnv *EnvState
	MidAt  int
	Cli    map[*Decl][]string
	Spec   string
}

func (c *multiCase) Describe() interface{} {
	given := map[string][]string{}
	for d, toks := range c.Cli {
		given[d.Key()] = toks
	}
	m := map[string]interface{}{"decls": describeDecls(c.DS), "spec": c.Spec, "argv": c.Argv, "env": c.Env.Describe(), "given_on_command_line": given}
	if c.MidEnv != nil {
		m["env_from_declaration_number"] = c.MidAt
		m["env_from_then_on"] = c.MidEnv.Describe()
	}
	return m
}

func genMulti(t *Tape) *multiCase { return genMultiOpt(t, false) }

// genMultiMid: as genMulti; the environment may also change between two declarations of the application (only for
// applications that run alone: the environment belongs to the whole process).
func genMultiMid(t *Tape) *multiCase {
	c := genMultiOpt(t, false)
	decls := c.App.Root.Decls
	if len(decls) < 2 || t.Draw(4) != 0 {
		return c
	}
	mid := c.Env
	at := 1 + t.Draw(len(decls)-1)
	changed := false
	for i := at; i < len(decls); i++ {
		d := decls[i]
		if d.Probe != nil {
			continue
		}
		for _, k := range d.EnvVars {
			if content, set := drawEnvContent(t, d.Kind, 2*t.Draw(2)); set {
				mid.Set(k, content)
			} else {
				mid.Unset(k)
			}
			changed = true
		}
	}
	if !changed {
		return c
	}
	c.MidEnv, c.MidAt = &mid, at
	c.App.Root.MidEnv, c.App.Root.MidAt = &mid, at
	return c
}

// envOf: the environment the declaration d read (the one in force at its own moment).
func (c *multiCase) envOf(d *Decl) EnvState {
	if c.MidEnv != nil {
		for i, x := range c.App.Root.Decls {
			if x == d && i >= c.MidAt {
				return *c.MidEnv
			}
		}
	}
	return c.Env
}

// genMultiOpt: with yieldProbe the application also declares a simulator-owned custom value, given once on the
// command line, whose Set is a scheduling point (used by scheduled pairs).
func genMultiOpt(t *Tape, yieldProbe bool) *multiCase {
	c := &multiCase{Cli: map[*Decl][]string{}}
	ds := &DeclSet{}
	nOpt := 2 + t.Draw(4)
	for i := 0; i < nOpt; i++ {
		d := &Decl{Name: shortPool[i]}
		if t.Draw(2) == 1 {
			d.Name += " " + longPool[i]
		}
		d.Kind = []ValKind{KBool, KBool, KBool, KBool, KString, KString, KInt, KStrings, KStrings, KInts, KInts, KFloats, KFloats}[t.Draw(13)]
		ek := elemKind(d.Kind)
		if t.Draw(2) == 1 {
			if d.Kind.IsList() {
				d.DefList = []string{t.Pick(validPool[ek]), t.Pick(validPool[ek])}
			} else {
				d.Def = t.Pick(validPool[ek])
			}
		}
		d.HideValue = t.Draw(5) == 0
		if t.Draw(2) == 1 {
			d.EnvVars = []int{i}
			if content, set := drawEnvContent(t, d.Kind, t.Draw(4)); set {
				c.Env.Set(i, content)
			}
		}
		ds.Opts = append(ds.Opts, d)
	}
	// two list options sharing one default object
	// an option may be called no-<the long name of another flag>: it is an option of its own
	if t.Draw(6) == 0 {
		var first *Decl
		for _, d := range ds.Opts {
			if _, l := optNames(d); d.Kind == KBool && l != "" {
				first = d
				break
			}
		}
		for _, d := range ds.Opts {
			if first != nil && d != first && d.Kind == KBool {
				_, l := optNames(first)
				d.Name = strings.Fields(d.Name)[0] + " no-" + l[2:]
				break
			}
		}
	}
	for _, lk := range []ValKind{KStrings, KInts, KFloats} {
		var lists []*Decl
		for _, d := range ds.Opts {
			if d.Kind == lk {
				lists = append(lists, d)
			}
		}
		if len(lists) >= 2 && t.Draw(2) == 1 {
			if len(lists[0].DefList) == 0 {
				lists[0].DefList = map[ValKind][]string{KStrings: {"shared-1", "shared-2"}, KInts: {"11", "22"}, KFloats: {"1.5", "2.5"}}[lk]
			}
			lists[1].DefList = append([]string(nil), lists[0].DefList...)
			lists[1].sharedWith = lists[0]
		}
	}
	hasArg := t.Draw(2) == 1
	// or several positional arguments in a spec whose distribution of the tokens is unambiguous
	// (which argument is bound is then known by construction, not by a second parser)
	var argRow *argDistRow
	if t.Draw(4) == 0 {
		hasArg = false
		argRow = &argDistTable[t.Draw(len(argDistTable))]
		for _, name := range []string{"A", "B", "C"} {
			if strings.Contains(argRow.spec, name) {
				ds.Args = append(ds.Args, &Decl{IsArg: true, Name: name, Kind: KString, Def: "def" + name})
			}
		}
	}
	if hasArg {
		ds.Args = []*Decl{{IsArg: true, Name: "X", Kind: KString, Def: "xdef"}}
	}
	// spec
	var parts []string
	twoPlaces, specDash := false, false
	form := t.Draw(4)
	if form == 3 && (argRow != nil || !hasArg) {
		form = 0
	}
	switch form {
	case 3:
		// the options may stand before or after the positional
		twoPlaces = true
		parts = append(parts, "[OPTIONS]", "X", "[OPTIONS]")
		hasArg = false
	case 0:
		parts = append(parts, "[OPTIONS]")
	case 1:
		perm := t.Perm(len(ds.Opts))
		for _, k := range perm {
			d := ds.Opts[k]
			s, _ := optNames(d)
			if d.Kind.IsList() {
				parts = append(parts, "["+s+"]...")
			} else {
				parts = append(parts, "["+s+"]")
			}
		}
	default:
		// bool flags through a folded group, the others individually
		fold := "-"
		var rest []string
		for _, d := range ds.Opts {
			s, _ := optNames(d)
			if d.Kind == KBool {
				fold += s[1:]
			} else if d.Kind.IsList() {
				rest = append(rest, "["+s+"]...")
			} else {
				rest = append(rest, "["+s+"]")
			}
		}
		if len(fold) > 2 {
			parts = append(parts, "["+fold+"]")
		} else if len(fold) == 2 {
			parts = append(parts, "["+fold+"]")
		}
		parts = append(parts, rest...)
	}
	if hasArg {
		if t.Draw(5) == 0 {
			specDash = true
			parts = append(parts, "--") // the end of the options written in the spec
		}
		parts = append(parts, "[X]")
	}
	if argRow != nil {
		parts = append(parts, argRow.spec)
	}
	var probeDecl *Decl
	bystander := !yieldProbe && !twoPlaces && t.Draw(5) == 0
	if yieldProbe || bystander {
		// (its name sorts before, among or after the other options: an implementation may fill in name order)
		pn := []string{"Q quux", "q quux", "z quux"}[t.Draw(3)]
		probeDecl = &Decl{Kind: KVar, Name: pn, Probe: &ProbeSpec{YieldInSet: yieldProbe}}
		if bystander {
			// a custom value next to the built-in ones; with IsBoolFlag()==false it takes a value like any valued option
			probeDecl.Probe.HasBool = true
			probeDecl.Probe.HasDefault = t.Draw(2) == 1
		}
		if len(parts) == 0 || parts[0] != "[OPTIONS]" {
			parts = append([]string{"[-" + pn[:1] + "]"}, parts...)
		}
	}
	c.Spec = strings.Join(parts, " ")
	// command line
	s := &sentence{}
	perm := t.Perm(len(ds.Opts))
	k := t.Draw(len(ds.Opts) + 1)
	for i := 0; i < k; i++ {
		d := ds.Opts[perm[i]]
		reps := 1
		if d.Kind.IsList() && t.Draw(2) == 1 {
			reps = 2
		}
		for r := 0; r < reps; r++ {
			s.emitOpt(t, d)
		}
	}
	for _, o := range s.occs {
		c.Cli[o.decl] = append(c.Cli[o.decl], o.tok)
	}
	s.foldAdjacent(t, ds)
	argv := append([]string{"app"}, s.toks...)
	if twoPlaces {
		// some occurrences before the positional, the rest behind it
		cut := 0
		if len(s.toks) > 0 {
			cut = t.Draw(len(s.toks) + 1)
			for cut > 0 && cut < len(s.toks) && !strings.HasPrefix(s.toks[cut], "-") {
				cut-- // never between an option and its separate value
			}
		}
		argv = append(append(append([]string{"app"}, s.toks[:cut]...), "xval"), s.toks[cut:]...)
		c.Cli[ds.Args[0]] = []string{"xval"}
	}
	if probeDecl != nil && !bystander {
		pn := probeDecl.Name[:1]
		argv = append([]string{"app", []string{"-" + pn + "=1", "--quux=2", "-" + pn + "3"}[t.Draw(3)]}, argv[1:]...)
	}
	if bystander {
		// given last among the options, also with its value as a separate token (which only a valued option takes)
		pn := probeDecl.Name[:1]
		argv = append(argv, [][]string{{"-" + pn + "=1"}, {"--quux=2"}, {"-" + pn + "3"}, {"-" + pn, "4"}, {"--quux", "5"}}[t.Draw(5)]...)
	}
	if hasArg {
		// the positional: absent, given, given behind `--`, and `--` itself as its value (only the first `--` is the marker)
		var tail []string
		sel := t.Draw(8)
		if specDash {
			// with `--` in the spec an option occurrence may be re-read as the positional (what it then means is
			// not by construction): the command line says itself where the options end
			sel = 3 + sel%3
		}
		switch sel {
		case 0, 1:
			tail = []string{"xval"}
		case 2:
			tail = []string{[]string{"true", "false", "xval"}[len(argv)%3]} // a word that a flag in front of it must not take
		case 3:
			tail = []string{"--", "xval"}
		case 4:
			tail = []string{"--", "--"}
		case 5:
			tail = []string{"--"}
		}
		argv = append(argv, tail...)
		if len(tail) > 0 && tail[len(tail)-1] != "--" || len(tail) == 2 {
			c.Cli[ds.Args[0]] = []string{tail[len(tail)-1]}
		}
	}
	if argRow != nil {
		for i, name := range argRow.bound {
			tok := "p" + fmt.Sprint(i)
			argv = append(argv, tok)
			for _, d := range ds.Args {
				if d.Name == name {
					c.Cli[d] = []string{tok}
				}
			}
		}
	}
	c.Argv = argv
	c.DS = ds
	decls := ds.All()
	if probeDecl != nil {
		decls = append(decls, probeDecl)
	}
	root := &CmdDecl{Name: "app", Spec: c.Spec, Decls: decls, Action: CB{Kind: CBReturn}}
	c.App = &AppDecl{Root: root, Policy: flag.ContinueOnError}
	c.App.Finish()
	return c
}

// multiExec runs the case and checks either the values (C06) or the SetByUser flags (C15).
func multiExec(c *multiCase, st *Stats, checkValues bool) *Violation {
	return multiExecOpt(c, st, checkValues, false)
}

// multiExecOpt: with skipDefaultLoss the loss of a list default behind an invalid environment value
// (C06's known finding KF-C06-1) is not this caller's subject and is skipped.
func multiExecOpt(c *multiCase, st *Stats, checkValues, skipDefaultLoss bool) *Violation {
	c.Env.Apply()
	defer EnvState{}.Apply()
	pr := multiPrepare(c, 0, checkValues, skipDefaultLoss)
	RunProc(pr.Proc, pr.Body)
	return pr.Finish(st)
}

func multiPrepare(c *multiCase, id int, checkValues, skipDefaultLoss bool) *Prepared {
	resetWorld(c.App)
	p := NewProc(id)
	var inst *Instance
	body := func() error {
		inst = Build(c.App, p)
		return inst.Cli.Run(c.Argv)
	}
	return &Prepared{Proc: p, Body: body, Finish: func(st *Stats) *Violation { return multiVerdict(c, p, inst, st, checkValues, skipDefaultLoss) }}
}

// multiPairExec runs two multi-container cases as concurrent simulated processes under the scheduler.
func multiPairExec(g *genericPair, st *Stats, checkValues, skipDefaultLoss bool) *Violation {
	return execGenericPair(g, st, func(c Case, id int) *Prepared { return multiPrepare(c.(*multiCase), id, checkValues, skipDefaultLoss) },
		func(c Case) EnvState { return c.(*multiCase).Env }, func(c Case, e EnvState) { c.(*multiCase).Env = e })
}

func multiVerdict(c *multiCase, p *Proc, inst *Instance, st *Stats, checkValues, skipDefaultLoss bool) *Violation {
	st.Evals++
	st.Count("multi_container_cases")
	if c.MidEnv != nil {
		st.Count("fired.env_changed_between_two_declarations")
	}
	folded := false
	for _, tok := range c.Argv[1:] {
		if len(tok) > 2 && tok[0] == '-' && tok[1] != '-' && tok[2] != '=' {
			folded = true
		}
	}
	if folded {
		st.Count("reach.folded_token_on_command_line")
	}
	for _, d := range c.DS.Opts {
		if d.sharedWith != nil {
			st.Count("reach.shared_default_object")
		}
	}
	st.Nontrivial(fnv64(fmt.Sprintf("multi|%s|%q|%v", c.Spec, c.Argv, c.Env.Describe())))
	if len(st.Samples) < 4 && folded {
		st.Sample(c.Describe())
	}
	if p.End == EndBudget {
		return &Violation{Clause: "terminates", Detail: "the run exceeded the " + p.Budget + " budget", Observed: describeEnd(p)}
	}
	accepted := p.End == EndReturned && p.Err == nil && len(p.Observed()) == 1
	if !accepted || inst == nil {
		st.Count("skipped.not_accepted")
		return nil
	}
	final := inst.Snapshot()
	for _, d := range c.DS.All() {
		key := "r/" + d.Key()
		toks := c.Cli[d]
		for i, snap := range []map[string]VarSnap{inst.ActionSnap, final} {
			where := []string{"inside the Action", "after Run"}[i]
			if checkValues {
				exp, _ := precedenceModel(d, toks, c.envOf(d))
				if got := snap[key].Val; got != exp {
					v := &Violation{Clause: "precedence", Detail: fmt.Sprintf("%s holds %s %s, the precedence rule gives %s (the command line gave it %q)", d.Key(), got, where, exp, toks), Expected: exp, Observed: got}
					if kfC06_1(&contCase{Decl: d, Env: c.envOf(d), CliToks: toks}, got, exp) {
						if skipDefaultLoss {
							st.Count("skipped.default_loss_is_C06s_subject")
							continue
						}
						v.Known = "KF-C06-1"
					}
					return v
				}
			} else {
				want := fmt.Sprint(len(toks) > 0)
				if got := snap[key].SBU; got != want {
					return &Violation{Clause: "setbyuser", Detail: fmt.Sprintf("SetByUser of %s is %s %s; the command line gave it %d value(s)", d.Key(), got, where, len(toks)), Expected: want, Observed: got}
				}
			}
		}
	}
	return nil
}

// argDistTable: specs over string arguments A, B, C in which a given number of positional tokens can only be
// distributed one way; bound lists, in order, the arguments that receive the tokens.
type argDistRow struct {
	spec  string
	bound []string
}

var argDistTable = []argDistRow{
	{"[A] B", []string{"B"}},
	{"[A] B", []string{"A", "B"}},
	{"[A] B C", []string{"B", "C"}},
	{"[A] B C", []string{"A", "B", "C"}},
	{"A [B] C", []string{"A", "C"}},
	{"A [B] C", []string{"A", "B", "C"}},
	{"A [B]", []string{"A"}},
	{"A [B]", []string{"A", "B"}},
	{"[A | B] C", []string{"C"}},
	{"[A B] C", []string{"C"}},
	{"[A B] C", []string{"A", "B", "C"}},
}
