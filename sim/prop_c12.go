package main

import (
	"flag"
	"fmt"
	"strings"
)

// C12 — an environment value can only satisfy an option, never restrict the command line.
//
// The relation is between two worlds that differ only in the content of the environment:
// world A has every owned variable unset, world B sets a valid value for a drawn non-empty
// subset E of the env-backed options. The same application and command line run in both.

type c12Case struct {
	DS      *DeclSet
	Spec    string
	HasDD   bool
	Argv    []string
	ArgvB   []string // world B's command line (differs from Argv only in the required-satisfied mode)
	EnvB    EnvState
	PreConv bool      // the first invocation is rejected by a type conversion, not by a spec mismatch
	PreB    []string  // world B: a command line the same application object rejects first (it writes the option, then an undeclared one)
	After   *EnvState // world B: the environment the host program installs after the declarations (must not matter)
	Mode    string
	Typed   bool
	Target  string // required-satisfied: the option removed from the command line
}

func (c *c12Case) Describe() interface{} {
	m := map[string]interface{}{"mode": c.Mode, "decls": describeDecls(c.DS), "spec": c.Spec, "argv": c.Argv, "env_world_B": c.EnvB.Describe()}
	if c.After != nil {
		m["env_world_B_after_the_declarations"] = c.After.Describe()
	}
	if c.PreB != nil {
		m["world_B_first_rejects"] = c.PreB
	}
	if c.Mode == "required-satisfied" {
		m["argv_world_B"] = c.ArgvB
		m["option_left_to_the_environment"] = c.Target
	}
	return m
}

type c12Prop struct{}

func init() { register(c12Prop{}) }

func (c12Prop) ID() string { return "C12" }

func (c12Prop) Rule() string {
	return "case = (declarations, spec from the documented grammar, command line from a walk of the spec, sometimes mutated) x a non-empty subset E of the env-backed options given a valid value in world B (world A: all unset). " +
		"Modes: general (accepted in A => accepted in B, identical values for options written on the command line when the spec has no `--`), required-satisfied (an option occurring once is removed from the command line and left to the environment), " +
		"repeated (an env-backed option given 2..4 times under -x..., [-x]..., [OPTIONS]). distinct = distinct (spec, argv, E); non-trivial = world A accepts (so the implication has a true premise)."
}

func (c12Prop) Phases(tier string) []PhaseCfg {
	n := 60_000
	if tier == "thorough" {
		n = 8_000_000
	}
	return []PhaseCfg{{Name: "seeded", Count: n}}
}

func (c12Prop) Gen(t *Tape, ph *PhaseCfg) Case {
	if t.Draw(300) == 0 {
		return genManyOptionalEnv(t)
	}
	c := &c12Case{}
	mode := t.Weighted(5, 3, 2)
	// Typed containers make a second failure mode possible (a token re-read as a typed value in another
	// derivation fails its conversion: known finding KF-C12-1). One case in eight keeps them; the others use
	// flags, strings and string lists only, where no command-line token can fail a conversion.
	typed := t.Draw(8) == 0
	ds := genDeclsKinds(t, 5, !typed)
	c.Typed = typed
	c.DS = ds
	// at least one env-backed option
	hasEnv := false
	for _, d := range ds.Opts {
		if len(d.EnvVars) > 0 {
			hasEnv = true
		}
	}
	if !hasEnv {
		ds.Opts[0].EnvVars = []int{0}
	}
	var envBacked []*Decl
	for _, d := range ds.Opts {
		if len(d.EnvVars) > 0 {
			envBacked = append(envBacked, d)
		}
	}
	switch mode {
	case 2:
		c.Mode = "repeated"
		x := envBacked[t.Draw(len(envBacked))]
		sh, lg := optNames(x)
		name := sh
		if name == "" {
			name = lg
		}
		shapes := []string{name + "...", "[" + name + "]...", "[OPTIONS]", "(" + name + ")..."}
		spec := shapes[t.Draw(len(shapes))]
		var tail []string
		if len(ds.Args) > 0 && t.Draw(2) == 1 {
			spec += " " + ds.Args[0].Name
			tail = []string{valueFor(t, ds.Args[0])}
			if strings.HasPrefix(tail[0], "-") {
				tail[0] = "1"
			}
		}
		c.Spec = spec
		s := &sentence{}
		k := 2 + t.Draw(3)
		for i := 0; i < k; i++ {
			s.emitOpt(t, x)
			if t.Draw(3) == 0 {
				// another option in between
				s.emitOpt(t, ds.Opts[t.Draw(len(ds.Opts))])
			}
		}
		if spec == "[OPTIONS]" || strings.HasPrefix(spec, "[OPTIONS] ") {
			s.foldAdjacent(t, ds)
		}
		c.Argv = append(append([]string{"app"}, s.toks...), tail...)
		c.ArgvB = c.Argv
		c.EnvB = envFor(t, ds.Opts, func(d *Decl) bool { return d == x || t.Draw(2) == 1 })
	default:
		c.Mode = "general"
		spec := genSpec(t, ds, 2, 3)
		c.Spec = spec.String()
		c.HasDD = spec.hasDD()
		mut := 2
		if mode == 1 {
			mut = -1 // no mutation, no folding: the occurrence records are needed
		}
		s := genSentence(t, spec, ds, mut)
		c.Argv = append([]string{"app"}, s.toks...)
		c.ArgvB = c.Argv
		forced := envBacked[t.Draw(len(envBacked))]
		if mode == 1 {
			// required-satisfied: remove the single occurrence of an env-backed option
			var cands []occurrence
			for _, o := range s.occs {
				if o.decl.IsArg || len(o.decl.EnvVars) == 0 {
					continue
				}
				cnt := 0
				for _, o2 := range s.occs {
					if o2.decl == o.decl {
						cnt++
					}
				}
				if cnt == 1 {
					cands = append(cands, o)
				}
			}
			if len(cands) > 0 {
				o := cands[t.Draw(len(cands))]
				// only options referenced by single-option elements: whether an option *group* (OPTIONS, -abc)
				// can be satisfied by the environment alone is not claimed by the property
				// and only specs and command lines without `--`: behind a `--` the occurrence may have been read as a
				// positional in world A (the property sets those aside: "an option occurrence cannot be re-read as a positional")
				// (a `--` further right on the command line is fine: what stands before it cannot be a positional)
				hasDash2 := spec.hasDD()
				for i, tok := range s.toks {
					if tok == "--" && i < o.from {
						hasDash2 = true
					}
				}
				if !inFold(spec, o.decl) && !hasKind(spec, nOptions) && !hasDash2 {
					c.Mode = "required-satisfied"
					forced = o.decl
					c.Target = o.decl.Key()
					full := append([]string{}, s.toks...)
					// sometimes with a `--` in front of the trailing block of positionals (to the right of the occurrence)
					blockStart := len(full)
					for blockStart > o.to && !strings.HasPrefix(full[blockStart-1], "-") {
						blockStart--
					}
					if blockStart < len(full) && blockStart >= o.to && t.Draw(3) == 0 {
						full = append(append(append([]string{}, full[:blockStart]...), "--"), full[blockStart:]...)
						c.Argv = append([]string{"app"}, full...)
					}
					toks := append(append([]string{}, full[:o.from]...), full[o.to:]...)
					c.ArgvB = append([]string{"app"}, toks...)
					if t.Draw(2) == 0 {
						// history: before that, the same object rejects the full command line preceded by an undeclared option
						c.PreB = rejectedVariant(append([]string{"app"}, s.toks...))
						if ek := elemKind(o.decl.Kind); ek != KString && t.Draw(2) == 0 {
							// or: the same command line with a value its own type refuses (the option keeps its environment value)
							name, _ := optNames(o.decl)
							if name == "" {
								_, name = optNames(o.decl)
							}
							pre := append(append([]string{"app"}, s.toks[:o.from]...), name+"=zz")
							c.PreB = append(pre, s.toks[o.to:]...)
							c.PreConv = true
						}
					}
				}
			}
		}
		c.EnvB = envFor(t, ds.Opts, func(d *Decl) bool { return d == forced || t.Draw(2) == 1 })
	}
	if t.Draw(4) == 0 {
		after := c.EnvB
		for k := 0; k < envPool; k++ {
			if after[k] != nil {
				switch t.Draw(3) {
				case 0:
					after.Unset(k)
				case 1:
					after.Set(k, "")
				default:
					after.Set(k, "\x01 not a value")
				}
			}
		}
		c.After = &after
	}
	return c
}

func hasKind(n *specNode, k nodeKind) bool {
	if n.kind == k {
		return true
	}
	for _, c := range n.kids {
		if hasKind(c, k) {
			return true
		}
	}
	return false
}

func inFold(n *specNode, d *Decl) bool {
	if n.kind == nFold {
		for _, f := range n.fold {
			if f == d {
				return true
			}
		}
	}
	for _, k := range n.kids {
		if inFold(k, d) {
			return true
		}
	}
	return false
}

var envAfter *EnvState

// withSub: the worlds of the current case address a sub-command behind the application's own arguments
var withSub bool
var preArgv []string
var preConv bool

type worldRun struct {
	p        *Proc
	accepted bool
	snap     map[string]VarSnap
	specErr  bool
	retried  bool
	preBad   bool // the first invocation of the history was not the plain spec mismatch it was meant to be
}

func runWorld(ds *DeclSet, spec string, argv []string, env EnvState) *worldRun {
	return runWorldAfter(ds, spec, argv, env, nil)
}

func runWorldAfter(ds *DeclSet, spec string, argv []string, env EnvState, after *EnvState) *worldRun {
	envAfter = after
	defer func() { envAfter = nil }()
	r := runWorldBudget(ds, spec, argv, env, defaultStepBudget)
	if r.p.End == EndBudget && r.p.Budget == "steps" {
		// backtracking is exponential in the worst case by design: a step budget only nominates.
		// Re-run with a budget 25 times larger before concluding anything.
		r = runWorldBudget(ds, spec, argv, env, 25*defaultStepBudget)
		r.retried = true
	}
	return r
}

func runWorldBudget(ds *DeclSet, spec string, argv []string, env EnvState, budget int64) *worldRun {
	preBad := false
	env.Apply()
	root := &CmdDecl{Name: "app", Spec: spec, Decls: ds.All(), Action: CB{Kind: CBReturn}}
	if withSub {
		// the application's own arguments are followed by a sub-command that declares nothing: accepted = its Action ran
		root.Subs = []*CmdDecl{{Name: "zsub", Desc: "declares nothing", Action: CB{Kind: CBReturn}}}
		argv = append(append([]string{}, argv...), "zsub")
	}
	app := &AppDecl{Root: root, Policy: flag.ContinueOnError}
	app.Finish()
	p := NewProc(0)
	if !liftBudgets {
		p.StepBudget = budget
	}
	var inst *Instance
	RunProc(p, func() error {
		inst = Build(app, p)
		if envAfter != nil {
			envAfter.Apply()
		}
		if preArgv != nil {
			err := inst.Cli.Run(preArgv)
			preBad = err == nil || len(p.Events) != 0 || (err.Error() != specMismatchText()) != preConv
			p.Events = nil
			inst.ActionSnap = nil
		}
		return inst.Cli.Run(argv)
	})
	EnvState{}.Apply()
	r := &worldRun{p: p, preBad: preBad}
	r.accepted = p.End == EndReturned && p.Err == nil && len(p.Observed()) == 1
	if inst != nil {
		r.snap = inst.ActionSnap
	}
	if p.End == EndPanicked {
		if e, ok := p.PanicVal.(error); ok && strings.HasPrefix(e.Error(), "Parse error") {
			r.specErr = true
		}
	}
	return r
}

func (c12Prop) Exec(cc Case, st *Stats) *Violation {
	c := cc.(*c12Case)
	// one case in four (a function of the spec, not a draw): the same arguments in front of a sub-command
	withSub = fnv64("sub|"+c.Spec)%4 == 0
	defer func() { withSub = false }()
	if withSub {
		st.Count("reach.own_arguments_in_front_of_a_sub_command")
	}
	a := runWorld(c.DS, c.Spec, c.Argv, EnvState{})
	st.Evals++
	st.Count("mode." + c.Mode)
	if c.Typed {
		st.Count("typed_containers")
	}
	if a.specErr {
		st.Count("spec_did_not_compile")
		return nil
	}
	if !a.accepted {
		st.Count("world_A_rejects")
		return nil
	}
	st.Count("world_A_accepts")
	st.Nontrivial(fnv64(fmt.Sprintf("%s|%q|%v", c.Spec, c.ArgvB, c.EnvB.Describe())))
	preArgv, preConv = c.PreB, c.PreConv
	b := runWorldAfter(c.DS, c.Spec, c.ArgvB, c.EnvB, c.After)
	preArgv = nil
	if c.PreB != nil {
		if b.preBad {
			st.Count("skipped.first_invocation_not_a_plain_mismatch")
			return nil
		}
		st.Count("reach.rejected_invocation_before_the_observed_one")
	}
	if c.After != nil {
		st.Count("fired.env_changed_after_declaration")
	}
	for range c.EnvB.Describe() {
		st.Count("fired.env_valid_value_set")
	}
	if len(st.Samples) < 3 && len(c.Argv) > 2 {
		st.Sample(c.Describe())
	}
	if a.retried || b.retried {
		st.Count("reach.step_budget_retry")
	}
	observed := map[string]interface{}{"world_A": describeEnd(a.p), "world_B": describeEnd(b.p)}
	if !b.accepted && b.p.End == EndBudget && b.p.Budget == "steps" {
		// Still searching after 25 times the step budget: slow is not rejected. Only a run alone with the budgets
		// lifted decides (it ends in a verdict, or in "still backtracking", which is C03's subject and not this property's).
		st.Count("reach.world_B_still_searching_after_25x_step_budget")
		return &Violation{Clause: "budget-steps", Detail: "world B exceeded 25 times the step budget", Observed: observed, Nominate: true}
	}
	if !b.accepted {
		d := "accepted with the variables unset, not accepted with a valid value set"
		if c.Mode == "required-satisfied" {
			d = "the option removed from the command line has a valid environment value: it must satisfy the spec"
		}
		if b.p.End == EndBudget {
			d += " (world B exceeded the " + b.p.Budget + " budget)"
		}
		v := &Violation{Clause: "monotone-acceptance", Detail: d, Expected: "world B accepts", Observed: observed}
		if kfC12_1(c, a, b) {
			v.Known = "KF-C12-1"
		}
		return v
	}
	if c.HasDD {
		st.Count("value_identity_not_claimed_spec_has_dd")
		return nil
	}
	isOpt := map[string]bool{}
	for _, d := range c.DS.Opts {
		isOpt["r/"+d.Key()] = true
	}
	for key, sa := range a.snap {
		// the clause is about options written on the command line; how positional tokens are
		// distributed over the arguments of an ambiguous spec may legitimately differ
		if sa.SBU != "true" || !isOpt[key] {
			continue
		}
		if c.Mode == "required-satisfied" && key == "r/"+c.Target {
			continue
		}
		sb := b.snap[key]
		if sb.Val != sa.Val {
			return &Violation{Clause: "value-identity", Detail: fmt.Sprintf("%s is written on the command line: it holds %s without the environment values and %s with them", key, sa.Val, sb.Val), Expected: sa.Val, Observed: observed}
		}
	}
	return nil
}

// kfC12_1 is the predicate of known finding KF-C12-1: typed containers are declared and world B is rejected by
// a type *conversion* error (not by a spec mismatch): the environment value opened an earlier derivation in which
// some token is read as the value of a typed option or argument, and conversion errors do not make the matcher
// backtrack.
func kfC12_1(c *c12Case, a, b *worldRun) bool {
	return c.Typed && b.p.End == EndReturned && b.p.Err != nil && strings.HasPrefix(b.p.Err.Error(), "strconv.")
}

// rejectedVariant makes a command line a plain spec mismatch while leaving its option occurrences where the
// matchers find them: an undeclared option at the very end, or (when a `--` would turn that into an operand) in front.
func rejectedVariant(argv []string) []string {
	for _, tok := range argv[1:] {
		if tok == "--" {
			return append([]string{argv[0], "--not-declared-anywhere"}, argv[1:]...)
		}
	}
	return append(append([]string{}, argv...), "--not-declared-anywhere")
}

// genManyOptionalEnv: 12..16 individually listed optional options, all backed by set variables, in front of the
// longer of two alternatives; the command line only fits the shorter one. Every env-backed option doubles the
// paths the matcher walks before it gets there: slow is allowed, rejecting is not.
func genManyOptionalEnv(t *Tape) *c12Case {
	c := &c12Case{Mode: "general"}
	ds := &DeclSet{}
	n := 12 + t.Draw(5)
	spec := "[-a] (("
	ds.Opts = append(ds.Opts, &Decl{Name: "a", Kind: KString})
	for i := 0; i < n; i++ {
		name := string(rune('b' + i))
		ds.Opts = append(ds.Opts, &Decl{Name: name, Kind: KString, EnvVars: []int{i % envPool}})
		spec += "[-" + name + "] "
	}
	ds.Args = []*Decl{{IsArg: true, Name: "SRC", Kind: KString}, {IsArg: true, Name: "DST", Kind: KString}}
	spec += "SRC DST) | SRC)"
	c.DS, c.Spec = ds, spec
	c.Argv = []string{"app", "-a", "1", "src"}
	c.ArgvB = c.Argv
	c.EnvB = envFor(t, ds.Opts, func(d *Decl) bool { return true })
	return c
}
