package main

import (
	"flag"
	"fmt"
	"strings"
)

// C06 — value precedence: command line, then environment, then default.
// C15 — SetByUser is true exactly for values given on the command line.
//
// World: the environment is ambient state owned by the simulator. Each listed variable is in a
// drawn state (unset / empty / valid / invalid / padded list); the command line gives the
// container a value 0..3 times. Oracle: the precedence reference model (model_value.go),
// whose validity and values come from strconv, read inside the Action and again after Run.

var validPool = map[ValKind][]string{
	KInt:    {"0", "7", "-3", "42", "+5", "007", "2147483648", "-9223372036854775808", "9223372036854775807"},
	KFloat:  {"0", "1.5", "-2.25", "1e3", ".5", "inf", "-Inf", "NaN", "1e-7", "0x1p-2", "-0"},
	KBool:   {"true", "false", "1", "0", "t", "F", "TRUE", "False"},
	KString: {"a", "hello world", "x=y", "-dash", "  padded ", "a,b", "é✓", "--", "-", "v", "\\-v", "a\\b", "\"quoted\"", "\"", "'x'", "$HOME", "%s", "no-v", "a\r", "\r", "line\n", "\t"},
}

var invalidPool = map[ValKind][]string{
	KInt:    {"zz", "1.5", " 1", "1 ", "0x10", "9223372036854775808", "1_0", "--"},
	KFloat:  {"zz", "1.5x", " 1", "1e", "--", "0x1"},
	KBool:   {"maybe", "yes", "2", " true", "tru"},
	KString: {"v"}, // every non-empty string is valid
}

type contCase struct {
	App       *AppDecl
	Decl      *Decl
	Extra     *Decl
	CliToks   []string // what the command line gives the container, as the tokens Set must see
	ExtraToks []string
	Argv      []string
	CliToks2  []string // second invocation of the same application object
	Argv2     []string
	Env       EnvState
	PreReject bool      // history: the same application object first rejects a command line that mentions the container
	EnvAfter  *EnvState // when set: the environment installed between the declarations and Run (must not matter)
	States    []string
	Shape     string
}

func (c *contCase) Describe() interface{} {
	m := map[string]interface{}{"decl": c.Decl.Describe(), "spec": c.App.Root.Spec, "argv": c.Argv, "env": c.Env.Describe(), "env_states": c.States, "cli_values": c.CliToks, "second_invocation_argv": c.Argv2}
	if c.Extra != nil {
		m["extra_decl"] = c.Extra.Describe()
	}
	if c.EnvAfter != nil {
		m["env_installed_after_the_declarations"] = c.EnvAfter.Describe()
	}
	if c.PreReject {
		m["first_a_rejected_invocation_of_the_same_object"] = c.preRejectArgv()
	}
	return m
}

// preRejectArgv: an undeclared option followed by the second invocation's command line (which gives the container a value).
func (c *contCase) preRejectArgv() []string {
	return rejectedVariant(c.Argv2)
}

var envStateNames = []string{"unset", "empty", "valid", "invalid", "padded"}

// drawEnvContent produces the content of one variable for the kind in the given state.
func drawEnvContent(t *Tape, k ValKind, state int) (string, bool) {
	ek := elemKind(k)
	switch state {
	case 0:
		return "", false
	case 1:
		return "", true
	case 2:
		if k.IsList() {
			n := 1 + t.Draw(3)
			parts := []string{}
			for i := 0; i < n; i++ {
				parts = append(parts, t.Pick(validPool[ek]))
			}
			return strings.Join(parts, ","), true
		}
		return t.Pick(validPool[ek]), true
	case 3:
		if k.IsList() {
			n := 1 + t.Draw(3)
			parts := []string{}
			bad := t.Draw(n)
			for i := 0; i < n; i++ {
				if i == bad {
					parts = append(parts, t.Pick(invalidPool[ek]))
				} else {
					parts = append(parts, t.Pick(validPool[ek]))
				}
			}
			return strings.Join(parts, ","), true
		}
		return t.Pick(invalidPool[ek]), true
	default:
		pad := func() string { return []string{"", " ", "  ", "\t"}[t.Draw(4)] }
		if k.IsList() {
			n := 1 + t.Draw(3)
			parts := []string{}
			for i := 0; i < n; i++ {
				parts = append(parts, pad()+t.Pick(validPool[ek])+pad())
			}
			return strings.Join(parts, ","), true
		}
		// a padded scalar: strconv decides (blanks make numbers invalid, strings keep them)
		return pad() + t.Pick(validPool[ek]) + pad(), true
	}
}

// genContainer draws the structural part first (kind, opt/arg, default, env list and states,
// number of command-line values, spec shape) — these are the digits swept by the enumerated
// phase — and then the tokens.
func genContainer(t *Tape) *contCase { return genContainerOpt(t, false) }

// genContainerOpt: with yieldProbe the application also declares a simulator-owned custom value given once on
// the command line whose Set is a scheduling point, so that a scheduled world can switch processes in the
// middle of the phase in which the library fills the variables.
func genContainerOpt(t *Tape, yieldProbe bool) *contCase {
	kind := ValKind(t.Draw(7))
	isArg := t.Draw(2) == 1
	nonZeroDef := t.Draw(2) == 1
	nEnv := t.Draw(3)
	st := [2]int{t.Draw(5), t.Draw(5)}
	nCli := t.Draw(4)
	shapeSel := t.Draw(3)

	c := &contCase{}
	d := &Decl{IsArg: isArg, Kind: kind}
	c.Decl = d
	if isArg {
		d.Name = "X"
	} else {
		d.Name = "x xx"
	}
	ek := elemKind(kind)
	// a third variable, sometimes, beyond the enumerated two
	states := []int{}
	for i := 0; i < nEnv; i++ {
		states = append(states, st[i])
	}
	if nEnv == 2 && t.Draw(4) == 0 {
		states = append(states, t.Draw(5))
	}
	if nonZeroDef {
		if kind.IsList() {
			n := 1 + t.Draw(2)
			for i := 0; i < n; i++ {
				d.DefList = append(d.DefList, t.Pick(validPool[ek]))
			}
		} else {
			d.Def = t.Pick(validPool[ek])
		}
	}
	d.PtrForm = t.Draw(2) == 1
	d.HideValue = t.Draw(5) == 0
	d.PrePop = d.PtrForm && t.Draw(3) == 0
	if len(states) == 0 && t.Draw(3) == 0 {
		d.Short, d.NoSBU = true, true
	}
	d.EnvSep = []string{"", "", "  ", "\t", "\n", " \t "}[t.Draw(6)]
	d.EnvPad = []string{"", "", " ", "\n"}[t.Draw(4)]
	for i, s := range states {
		d.EnvVars = append(d.EnvVars, i)
		content, set := drawEnvContent(t, kind, s)
		if set {
			c.Env.Set(i, content)
		}
		c.States = append(c.States, envStateNames[s])
	}

	// spec shape by the number of command-line values
	var spec string
	if isArg {
		switch {
		case nCli == 0:
			spec = []string{"[X]", "[X...]", "[X]"}[shapeSel]
		case nCli == 1:
			spec = []string{"X", "[X...]", "X..."}[shapeSel]
		default:
			spec = []string{"X...", "[X...]", "X..."}[shapeSel]
		}
	} else {
		switch {
		case nCli == 0:
			spec = []string{"[-x]", "[-x]...", "[OPTIONS]"}[shapeSel]
		case nCli == 1:
			spec = []string{"[-x]", "-x...", "[OPTIONS]"}[shapeSel]
		default:
			spec = []string{"[-x]...", "-x...", "[OPTIONS]"}[shapeSel]
		}
	}
	c.Shape = spec

	// the extra, unrelated option
	var extraArgv []string
	if t.Draw(2) == 1 {
		e := &Decl{Kind: KString, Name: "y yy", Def: "ydef"}
		if t.Draw(2) == 1 {
			e.EnvVars = []int{5}
			if t.Draw(2) == 1 {
				c.Env.Set(5, "yenv")
			}
		}
		c.Extra = e
		if t.Draw(2) == 1 {
			c.ExtraToks = []string{"ycli"}
			extraArgv = [][]string{{"-y", "ycli"}, {"--yy=ycli"}, {"-yycli"}}[t.Draw(3)]
		}
		if spec != "[OPTIONS]" {
			spec = "[-y] " + spec
		}
	}

	var probeDecl *Decl
	if yieldProbe {
		probeDecl = &Decl{Kind: KVar, Name: "q quux", Probe: &ProbeSpec{YieldInSet: true}}
		extraArgv = append(extraArgv, []string{"-q=1", "--quux=2", "-q3"}[t.Draw(3)])
		if spec != "[OPTIONS]" && !strings.HasPrefix(spec, "[OPTIONS]") {
			spec = "[-q] " + spec
		}
	}
	// command-line occurrences
	mkArgv := func(n int, extraArgv []string) (cliToks []string, argv []string) {
		var occ [][]string
		for i := 0; i < n; i++ {
			if isArg {
				tok := t.Pick(validPool[ek])
				if ek == KString && t.Draw(8) == 0 {
					tok = ""
				}
				cliToks = append(cliToks, tok)
				occ = append(occ, []string{tok})
				continue
			}
			if ek == KBool {
				form := t.Draw(4)
				switch form {
				case 0:
					cliToks = append(cliToks, "true")
					occ = append(occ, []string{"-x"})
				case 1:
					cliToks = append(cliToks, "true")
					occ = append(occ, []string{"--xx"})
				default:
					tok := t.Pick(validPool[KBool])
					cliToks = append(cliToks, tok)
					occ = append(occ, []string{[]string{"-x=", "--xx="}[form-2] + tok})
				}
				continue
			}
			tok := t.Pick(validPool[ek])
			if ek == KString && t.Draw(8) == 0 {
				tok = ""
			}
			cliToks = append(cliToks, tok)
			switch {
			case tok == "":
				occ = append(occ, [][]string{{"-x", tok}, {"--xx", tok}}[t.Draw(2)])
			case strings.HasPrefix(tok, "-") || strings.HasPrefix(tok, "="):
				occ = append(occ, [][]string{{"-x=" + tok}, {"--xx=" + tok}}[t.Draw(2)])
			default:
				occ = append(occ, [][]string{{"-x=" + tok}, {"--xx=" + tok}, {"-x", tok}, {"--xx", tok}, {"-x" + tok}}[t.Draw(5)])
			}
		}
		argv = []string{"app"}
		if isArg {
			argv = append(argv, extraArgv...)
			dash := false
			for _, o := range occ {
				if strings.HasPrefix(o[0], "-") {
					dash = true
				}
			}
			if dash {
				argv = append(argv, "--")
			}
			for _, o := range occ {
				argv = append(argv, o...)
			}
		} else {
			// the extra option goes before, between or after the occurrences
			pos := 0
			if len(occ) > 0 {
				pos = t.Draw(len(occ) + 1)
			}
			for i, o := range occ {
				if i == pos {
					argv = append(argv, extraArgv...)
				}
				argv = append(argv, o...)
			}
			if pos >= len(occ) {
				argv = append(argv, extraArgv...)
			}
		}
		return
	}
	c.CliToks, c.Argv = mkArgv(nCli, extraArgv)
	// a second invocation of the same application object, giving the value again
	n2 := nCli
	if n2 == 0 {
		n2 = 1
	}
	c.CliToks2, c.Argv2 = mkArgv(n2, nil)

	c.PreReject = t.Draw(4) == 0
	// environment timeline: sometimes the host program changes the variables after declaring
	if t.Draw(3) == 0 {
		after := c.Env
		for i := range d.EnvVars {
			switch t.Draw(3) {
			case 0:
				after.Unset(i)
			case 1:
				content, set := drawEnvContent(t, kind, 2)
				if set {
					after.Set(i, content)
				}
			}
		}
		if t.Draw(2) == 0 {
			after.Set(5, "ylate")
		}
		c.EnvAfter = &after
	}
	root := &CmdDecl{Name: "app", Spec: spec, Decls: []*Decl{d}, Action: CB{Kind: CBReturn}}
	if c.Extra != nil {
		if t.Draw(2) == 1 {
			root.Decls = []*Decl{c.Extra, d}
		} else {
			root.Decls = append(root.Decls, c.Extra)
		}
	}
	if probeDecl != nil {
		if t.Draw(2) == 1 {
			root.Decls = append([]*Decl{probeDecl}, root.Decls...)
		} else {
			root.Decls = append(root.Decls, probeDecl)
		}
	}
	c.App = &AppDecl{Root: root, Policy: flag.ContinueOnError}
	c.App.Finish()
	return c
}

type contRun struct {
	p        *Proc
	inst     *Instance
	accepted bool
	action   map[string]VarSnap
	final    map[string]VarSnap

	preErr    error
	preEvents int

	p2        *Proc
	accepted2 bool
	action2   map[string]VarSnap
	final2    map[string]VarSnap
}

func runContainer(c *contCase) *contRun {
	c.Env.Apply()
	defer EnvState{}.Apply()
	pr, r := contPrepare(c, 0, nil)
	RunProc(pr.Proc, pr.Body)
	pr.Finish(nil)
	return r
}

// contPrepare splits a container case into the body of its simulated process and what follows
// (second invocation of the same object, then the property's verdict).
func contPrepare(c *contCase, id int, verdict func(c *contCase, r *contRun, st *Stats) *Violation) (*Prepared, *contRun) {
	p := NewProc(id)
	r := &contRun{p: p}
	body := func() error {
		r.inst = Build(c.App, p)
		if c.EnvAfter != nil {
			c.EnvAfter.Apply()
		}
		if c.PreReject {
			// a spec mismatch: nothing is bound, nothing may be remembered
			r.preErr = r.inst.Cli.Run(c.preRejectArgv())
			r.preEvents = len(p.Events)
			p.Events = nil
			r.inst.ActionSnap = nil
		}
		return r.inst.Cli.Run(c.Argv)
	}
	finish := func(st *Stats) *Violation {
		if r.inst != nil {
			r.action = r.inst.ActionSnap
			r.final = r.inst.Snapshot()
		}
		r.accepted = p.End == EndReturned && p.Err == nil && len(p.Observed()) == 1 && p.Observed()[0] == "ACT:r"
		if c.PreReject && (r.preErr == nil || r.preEvents != 0 || r.preErr.Error() != specMismatchText()) {
			r.accepted = false // the first invocation was not the plain spec mismatch it was meant to be
		}
		if r.accepted && r.inst != nil {
			// history: the same application object parses a second command line
			p2 := NewProc(10 + id)
			r.inst.Proc = p2
			r.inst.ActionSnap = nil
			// (the host program lowers its SetByUser flags before it parses again: they are its own variables)
			r.inst.LowerSetByUser()
			RunProc(p2, func() error { return r.inst.Cli.Run(c.Argv2) })
			r.p2 = p2
			r.accepted2 = p2.End == EndReturned && p2.Err == nil && len(p2.Observed()) == 1
			r.action2 = r.inst.ActionSnap
			r.final2 = r.inst.Snapshot()
		}
		if verdict != nil {
			return verdict(c, r, st)
		}
		return nil
	}
	return &Prepared{Proc: p, Body: body, Finish: finish}, r
}

func contPairExec(g *genericPair, st *Stats, verdict func(c *contCase, r *contRun, st *Stats) *Violation) *Violation {
	return execGenericPair(g, st, func(c Case, id int) *Prepared {
		pr, _ := contPrepare(c.(*contCase), id, verdict)
		return pr
	}, func(c Case) EnvState { return c.(*contCase).Env }, func(c Case, e EnvState) {
		cc := c.(*contCase)
		cc.Env, cc.EnvAfter = e, nil // one world, one environment, constant while both run
	})
}

func contStats(c *contCase, st *Stats, r *contRun) {
	st.Evals++
	st.Count("kind." + c.Decl.Kind.String())
	st.Count(map[bool]string{true: "container.arg", false: "container.opt"}[c.Decl.IsArg])
	st.Count(fmt.Sprintf("cli_values=%d", len(c.CliToks)))
	for _, s := range c.States {
		st.Count("fired.env_" + s)
	}
	if !r.accepted {
		st.Count("skipped.not_accepted")
	}
	if c.EnvAfter != nil {
		st.Count("fired.env_changed_after_declaration")
	}
	if c.PreReject && r.preErr != nil && r.preEvents == 0 {
		st.Count("reach.rejected_invocation_before_the_observed_one")
	}
	if len(c.States) > 0 || len(c.CliToks) > 0 {
		st.Nontrivial(fnv64(fmt.Sprintf("%d %v %v %q %v %d %s", c.Decl.Kind, c.Decl.IsArg, c.Decl.Def != "" || len(c.Decl.DefList) > 0, c.States, c.Env.Describe(), len(c.CliToks), c.Shape)))
	}
	if len(c.States) > 1 && len(c.CliToks) > 0 {
		st.Sample(c.Describe())
	}
}

// kfC06_1 is the predicate of known finding KF-C06-1.
func kfC06_1(c *contCase, observed, expected string) bool {
	d := c.Decl
	if !d.Kind.IsList() || len(c.CliToks) != 0 || len(d.DefList) == 0 {
		return false
	}
	if _, ok := envValue(d.Kind, d.EnvVars, c.Env); ok {
		return false // some variable is valid
	}
	nonEmpty := false
	for _, v := range d.EnvVars {
		if s, set := c.Env.Get(v); set && s != "" {
			nonEmpty = true
		}
	}
	return nonEmpty && observed == "[]" && expected == defaultValue(d) && expected != "[]"
}

type c06Prop struct{}

func init() { register(c06Prop{}) }

func (c06Prop) ID() string { return "C06" }

func (c06Prop) Rule() string {
	return "case = one container: 7 built-in types x option/argument x default (zero / non-zero) x list of 0..3 environment variables each unset / empty / valid / invalid / blank-padded " +
		"x the command line giving the value 0..3 times in any documented spelling x spec shape ([-x], [-x]..., -x..., [OPTIONS], [X], X, X..., [X...]), plus an optional unrelated option. " +
		"The enumerated phase sweeps the structural part completely (tokens seeded); the seeded phase draws everything. distinct = distinct (kind, opt/arg, default, env states and contents, number of values, shape); " +
		"non-trivial = at least one environment variable listed or one command-line value."
}

func contPhases(tier string) []PhaseCfg {
	radix := []int{7, 2, 2, 3, 5, 5, 4, 3}
	if tier == "thorough" {
		return []PhaseCfg{{Name: "structural-sweep", Radix: radix, Count: product(radix), P: map[string]int{"seeded_tail": 1}},
			{Name: "seeded", Count: 10_000_000}, pairPhase(4_000, 400_000, tier), {Name: "multi-container", Count: 10_000_000, P: map[string]int{"multi": 1}}}
	}
	return []PhaseCfg{{Name: "structural-sweep", Radix: radix, Count: product(radix), P: map[string]int{"seeded_tail": 1}},
		{Name: "seeded", Count: 40_000}, pairPhase(12_000, 300_000, tier), {Name: "multi-container", Count: 40_000, P: map[string]int{"multi": 1}}}
}

func (c06Prop) Phases(tier string) []PhaseCfg { return contPhases(tier) }

func (c06Prop) Gen(t *Tape, ph *PhaseCfg) Case {
	if ph.P["multi"] == 1 {
		return genMultiMid(t)
	}
	if ph.P["pair"] == 1 {
		g := genPair(t, func() Case { return genContainerOpt(t, true) })
		g.MapOrder = true
		return g
	}
	return genContainer(t)
}

func (c06Prop) Exec(cc Case, st *Stats) *Violation {
	if m, ok := cc.(*multiCase); ok {
		return multiExec(m, st, true)
	}
	if g, ok := cc.(*genericPair); ok {
		return contPairExec(g, st, c06Verdict)
	}
	c := cc.(*contCase)
	return c06Verdict(c, runContainer(c), st)
}

func c06Verdict(c *contCase, r *contRun, st *Stats) *Violation {
	contStats(c, st, r)
	if r.p.End == EndBudget {
		return &Violation{Clause: "terminates", Detail: "the run exceeded the " + r.p.Budget + " budget", Observed: describeEnd(r.p)}
	}
	if !r.accepted {
		return nil // the property speaks about successful parses only (acceptance is C12's and C13's subject)
	}
	check := func(d *Decl, toks []string) *Violation {
		exp, _ := precedenceModel(d, toks, c.Env)
		key := "r/" + d.Key()
		for _, where := range []string{"inside the Action", "after Run"} {
			snap := r.action
			if where == "after Run" {
				snap = r.final
			}
			got := snap[key].Val
			if got != exp {
				v := &Violation{Clause: "precedence", Detail: fmt.Sprintf("%s holds %s %s, the precedence rule gives %s", d.Key(), got, where, exp), Expected: exp, Observed: got}
				if d == c.Decl && kfC06_1(c, got, exp) {
					v.Known = "KF-C06-1"
				}
				return v
			}
		}
		return nil
	}
	if v := check(c.Decl, c.CliToks); v != nil {
		return v
	}
	if c.Extra != nil {
		if v := check(c.Extra, c.ExtraToks); v != nil {
			return v
		}
	}
	if r.accepted2 {
		st.Count("reach.same_app_parsed_again")
		exp, _ := precedenceModel(c.Decl, c.CliToks2, c.Env)
		key := "r/" + c.Decl.Key()
		for i, snap := range []map[string]VarSnap{r.action2, r.final2} {
			if got := snap[key].Val; got != exp {
				where := []string{"inside the Action", "after Run"}[i]
				return &Violation{Clause: "rerun-precedence", Detail: fmt.Sprintf("second invocation of the same application object with %q: %s holds %s %s, the command line gives %s", c.Argv2, c.Decl.Key(), got, where, exp), Expected: exp, Observed: got}
			}
		}
	}
	return nil
}

type c15Prop struct{}

func init() { register(c15Prop{}) }

func (c15Prop) ID() string { return "C15" }

func (c15Prop) Rule() string {
	return "same world as C06 (one container: 7 types x option/argument x default x environment list states x 0..3 command-line values x spec shape, plus an optional unrelated option); " +
		"the SetByUser pointer is always supplied and read inside the Action and after Run. distinct / non-trivial as in C06."
}

func (c15Prop) Phases(tier string) []PhaseCfg { return contPhases(tier) }

func (c15Prop) Gen(t *Tape, ph *PhaseCfg) Case {
	if ph.P["multi"] == 1 {
		return genMultiMid(t)
	}
	if ph.P["pair"] == 1 {
		g := genPair(t, func() Case { return genContainerOpt(t, true) })
		g.MapOrder = true
		return g
	}
	return genContainer(t)
}

func (c15Prop) Exec(cc Case, st *Stats) *Violation {
	if m, ok := cc.(*multiCase); ok {
		return multiExec(m, st, false)
	}
	if g, ok := cc.(*genericPair); ok {
		return contPairExec(g, st, c15Verdict)
	}
	c := cc.(*contCase)
	return c15Verdict(c, runContainer(c), st)
}

func c15Verdict(c *contCase, r *contRun, st *Stats) *Violation {
	contStats(c, st, r)
	if r.p.End == EndBudget {
		return &Violation{Clause: "terminates", Detail: "the run exceeded the " + r.p.Budget + " budget", Observed: describeEnd(r.p)}
	}
	if !r.accepted {
		return nil
	}
	check := func(d *Decl, toks []string) *Violation {
		if d.NoSBU {
			return nil // declared through a convenience method: there is no SetByUser pointer to look at
		}
		want := fmt.Sprint(len(toks) > 0)
		key := "r/" + d.Key()
		for _, where := range []string{"inside the Action", "after Run"} {
			snap := r.action
			if where == "after Run" {
				snap = r.final
			}
			if got := snap[key].SBU; got != want {
				return &Violation{Clause: "setbyuser", Detail: fmt.Sprintf("SetByUser of %s is %s %s; the command line gave it %d value(s)", d.Key(), got, where, len(toks)), Expected: want, Observed: got}
			}
		}
		return nil
	}
	if v := check(c.Decl, c.CliToks); v != nil {
		return v
	}
	if c.Extra != nil {
		if v := check(c.Extra, c.ExtraToks); v != nil {
			return v
		}
	}
	if r.accepted2 {
		st.Count("reach.same_app_parsed_again")
		key := "r/" + c.Decl.Key()
		for i, snap := range []map[string]VarSnap{r.action2, r.final2} {
			if c.Decl.NoSBU {
				break
			}
			if got := snap[key].SBU; got != "true" {
				where := []string{"inside the Action", "after Run"}[i]
				return &Violation{Clause: "rerun-setbyuser", Detail: fmt.Sprintf("second invocation of the same application object with %q: SetByUser of %s is %s %s", c.Argv2, c.Decl.Key(), got, where), Expected: "true", Observed: got}
			}
		}
	}
	return nil
}
