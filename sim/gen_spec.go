package main

import (
	"strconv"
	"strings"
)

// Declarations, spec strings drawn from the documented grammar over them, and command
// lines drawn by walking the spec's syntax tree (a bias towards accepted inputs, never an oracle).

var shortPool = []string{"a", "b", "c", "d", "e", "f"}
var longPool = []string{"alpha", "alpes", "gamma", "gamut", "eps", "phi"} // some share a prefix and a length: abbreviations are not options
var argPool = []string{"SRC", "DST", "X", "Y"}

func optNames(d *Decl) (short, long string) {
	for _, n := range strings.Fields(d.Name) {
		if len(n) == 1 && short == "" {
			short = "-" + n
		}
		if len(n) > 1 && long == "" {
			long = "--" + n
		}
	}
	return
}

// drawDesc draws a description as it appears in help texts: mostly none, sometimes short, multi-line,
// with non-ASCII text or with one long unbroken word (a URL).
func drawDesc(t *Tape) string {
	switch t.Draw(10) {
	case 0:
		return "a short description"
	case 1:
		return "first line\nsecond line\n  indented third line"
	case 2:
		return "see https://example.com/" + strings.Repeat("0123456789", 9) + " for details"
	case 3:
		return "naïve café ☕ 值 …"
	case 4:
		return strings.Repeat("word ", 40)
	}
	return ""
}

type DeclSet struct {
	Opts []*Decl
	Args []*Decl
}

func (ds *DeclSet) All() []*Decl { return append(append([]*Decl{}, ds.Opts...), ds.Args...) }

// genDecls draws 1..5 options and 0..3 arguments. envProb/8 of them list one of the simulator's variables.
func genDecls(t *Tape, envProb int) *DeclSet { return genDeclsKinds(t, envProb, false) }

// genDeclsKinds: with stringOnly every container is a flag, a string or a list of strings, so that no
// command-line token can ever fail a type conversion.
func genDeclsKinds(t *Tape, envProb int, stringOnly bool) *DeclSet {
	ds := &DeclSet{}
	nOpt := 1 + t.Draw(5)
	for i := 0; i < nOpt; i++ {
		d := &Decl{}
		switch t.Draw(3) {
		case 0:
			d.Name = shortPool[i]
		case 1:
			d.Name = longPool[i]
		default:
			d.Name = shortPool[i] + " " + longPool[i]
		}
		d.Kind = []ValKind{KBool, KBool, KString, KString, KInt, KFloat, KStrings, KInts, KFloats}[t.Draw(9)]
		if stringOnly {
			d.Kind = map[ValKind]ValKind{KBool: KBool, KString: KString, KInt: KString, KFloat: KString, KStrings: KStrings, KInts: KStrings, KFloats: KStrings}[d.Kind]
		}
		if i == nOpt-1 && t.Draw(12) == 0 {
			// an application may declare its own -h (the library's help request still wins on the command line)
			d.Name = []string{"h", "h host", "help"}[t.Draw(3)]
		}
		if t.Draw(8) < envProb {
			d.EnvVars = []int{i}
			if i > 0 && len(ds.Opts[i-1].EnvVars) > 0 && ds.Opts[i-1].Kind == d.Kind && t.Draw(4) == 0 {
				d.EnvVars = []int{ds.Opts[i-1].EnvVars[0]} // two declarations backed by one variable
			}
			d.EnvPad = []string{"", "", "", " ", "\n", "\t"}[t.Draw(6)]
			if t.Draw(5) == 0 {
				d.EnvVars = append(d.EnvVars, 7) // a second name, separated by any amount of white space
				d.EnvSep = []string{"", "  ", "\t", " \n "}[t.Draw(4)]
			}
		}
		if t.Draw(3) == 0 {
			ek := elemKind(d.Kind)
			if d.Kind.IsList() {
				d.DefList = []string{t.Pick(validPool[ek])}
			} else {
				d.Def = t.Pick(validPool[ek])
			}
		}
		d.Desc = drawDesc(t)
		d.PtrForm = t.Draw(3) == 0
		d.HideValue = t.Draw(6) == 0
		if d.Kind == KString && t.Draw(12) == 0 {
			d.Def = "http://example.com/" + strings.Repeat("a-very-long-path-segment/", 4)
		}
		ds.Opts = append(ds.Opts, d)
	}
	nArg := t.Draw(4)
	for i := 0; i < nArg; i++ {
		d := &Decl{IsArg: true, Name: argPool[i]}
		d.Kind = []ValKind{KString, KString, KStrings, KStrings, KInt, KInts}[t.Draw(6)]
		if stringOnly && d.Kind == KInt {
			d.Kind = KString
		}
		if stringOnly && d.Kind == KInts {
			d.Kind = KStrings
		}
		if t.Draw(16) < envProb {
			d.EnvVars = []int{6}
		}
		d.Desc = drawDesc(t)
		ds.Args = append(ds.Args, d)
	}
	return ds
}

type nodeKind int

const (
	nSeq nodeKind = iota
	nChoice
	nOptional
	nGroup
	nOptRef
	nArgRef
	nOptions
	nFold
	nDD
)

type specNode struct {
	kind  nodeKind
	kids  []*specNode
	rep   bool
	decl  *Decl
	spell string
	annot string
	fold  []*Decl
}

func (n *specNode) render(sb *strings.Builder) {
	switch n.kind {
	case nSeq:
		for i, k := range n.kids {
			if i > 0 {
				sb.WriteByte(' ')
			}
			k.render(sb)
		}
	case nChoice:
		for i, k := range n.kids {
			if i > 0 {
				sb.WriteString(" | ")
			}
			k.render(sb)
		}
	case nOptional:
		sb.WriteByte('[')
		n.kids[0].render(sb)
		sb.WriteByte(']')
	case nGroup:
		sb.WriteByte('(')
		n.kids[0].render(sb)
		sb.WriteByte(')')
	case nOptRef:
		sb.WriteString(n.spell)
		sb.WriteString(n.annot)
	case nArgRef:
		sb.WriteString(n.decl.Name)
	case nOptions:
		sb.WriteString("OPTIONS")
	case nFold:
		sb.WriteByte('-')
		for _, d := range n.fold {
			s, _ := optNames(d)
			sb.WriteString(s[1:])
		}
	case nDD:
		sb.WriteString("--")
	}
	if n.rep {
		sb.WriteString("...")
	}
}

func (n *specNode) String() string {
	var sb strings.Builder
	n.render(&sb)
	return sb.String()
}

func (n *specNode) hasDD() bool {
	if n.kind == nDD {
		return true
	}
	for _, k := range n.kids {
		if k.hasDD() {
			return true
		}
	}
	return false
}

type specGen struct {
	t       *Tape
	ds      *DeclSet
	afterDD bool
	repBias int // out of 8: probability of a repetition
	maxNest int
	nodes   int
}

func (g *specGen) seq(depth int) *specNode {
	n := &specNode{kind: nSeq}
	cnt := 1 + g.t.Draw(4)
	for i := 0; i < cnt && g.nodes < 24; i++ {
		if g.t.Draw(5) == 0 {
			c := &specNode{kind: nChoice}
			k := 2 + g.t.Draw(2)
			for j := 0; j < k; j++ {
				c.kids = append(c.kids, g.atom(depth))
			}
			n.kids = append(n.kids, c)
		} else {
			n.kids = append(n.kids, g.atom(depth))
		}
	}
	return n
}

func (g *specGen) atom(depth int) *specNode {
	g.nodes++
	t := g.t
	var shorts []*Decl
	for _, d := range g.ds.Opts {
		if s, _ := optNames(d); s != "" {
			shorts = append(shorts, d)
		}
	}
	wOpt, wArg, wOptions, wFold, wOptional, wGroup, wDD := 4, 3, 1, 1, 3, 1, 1
	if len(g.ds.Args) == 0 {
		wArg = 0
	}
	if len(shorts) < 2 {
		wFold = 0
	}
	if depth >= g.maxNest {
		wOptional, wGroup = 0, 0
	}
	if g.afterDD {
		wOpt, wOptions, wFold, wDD = 0, 0, 0, 0
		if wArg == 0 {
			wArg = 1 // rendered as an undeclared argument: a spec error, which is a documented outcome
		}
	}
	var n *specNode
	switch t.Weighted(wOpt, wArg, wOptions, wFold, wOptional, wGroup, wDD) {
	case 0:
		d := g.ds.Opts[t.Draw(len(g.ds.Opts))]
		s, l := optNames(d)
		spell := s
		if s == "" || (l != "" && t.Draw(2) == 1) {
			spell = l
		}
		n = &specNode{kind: nOptRef, decl: d, spell: spell}
		if d.Kind != KBool && t.Draw(3) == 0 {
			n.annot = "=<" + []string{"v", "some value", "n", "naïve café ☕ value", "值", "a-b_c.d"}[t.Draw(6)] + ">"
		}
	case 1:
		if len(g.ds.Args) == 0 {
			n = &specNode{kind: nArgRef, decl: &Decl{IsArg: true, Name: "UNDECL"}}
		} else {
			n = &specNode{kind: nArgRef, decl: g.ds.Args[t.Draw(len(g.ds.Args))]}
		}
	case 2:
		n = &specNode{kind: nOptions}
	case 3:
		perm := t.Perm(len(shorts))
		k := 2 + t.Draw(len(shorts)-1)
		n = &specNode{kind: nFold}
		for i := 0; i < k; i++ {
			n.fold = append(n.fold, shorts[perm[i]])
		}
	case 4:
		n = &specNode{kind: nOptional, kids: []*specNode{g.seq(depth + 1)}}
	case 5:
		n = &specNode{kind: nGroup, kids: []*specNode{g.seq(depth + 1)}}
	default:
		g.afterDD = true
		return &specNode{kind: nDD}
	}
	if t.Draw(8) < g.repBias {
		n.rep = true
	}
	return n
}

// genSpec draws a spec over the declarations.
func genSpec(t *Tape, ds *DeclSet, repBias, maxNest int) *specNode {
	g := &specGen{t: t, ds: ds, repBias: repBias, maxNest: maxNest}
	return g.seq(0)
}

// ---------------------------------------------------------------------------
// Sentences

type occurrence struct {
	decl     *Decl
	from, to int // token index range [from,to)
	tok      string
}

type sentence struct {
	toks    []string
	occs    []occurrence
	afterDD bool
	budget  int
}

func valueFor(t *Tape, d *Decl) string {
	ek := elemKind(d.Kind)
	if ek == KString {
		return []string{"v1", "v2", "val", "w", "a b", "x=y", "é"}[t.Draw(7)]
	}
	return t.Pick(validPool[ek])
}

// spellOpt spells one occurrence of option d carrying tok (bool: tok "" = bare flag).
func spellOpt(t *Tape, d *Decl, tok string, bare bool) []string {
	s, l := optNames(d)
	name := s
	long := false
	if s == "" || (l != "" && t.Draw(2) == 1) {
		name, long = l, true
	}
	if bare {
		return []string{name}
	}
	if elemKind(d.Kind) == KBool {
		return []string{name + "=" + tok}
	}
	if tok == "" {
		return []string{name, tok}
	}
	if strings.HasPrefix(tok, "-") || strings.HasPrefix(tok, "=") {
		return []string{name + "=" + tok}
	}
	switch t.Draw(3) {
	case 0:
		return []string{name + "=" + tok}
	case 1:
		return []string{name, tok}
	}
	if long {
		return []string{name + "=" + tok}
	}
	return []string{name + tok}
}

func (s *sentence) emitOpt(t *Tape, d *Decl) {
	from := len(s.toks)
	if d.Kind == KBool {
		if t.Draw(3) != 0 {
			s.toks = append(s.toks, spellOpt(t, d, "", true)...)
			s.occs = append(s.occs, occurrence{d, from, len(s.toks), "true"})
			return
		}
		tok := t.Pick(validPool[KBool])
		s.toks = append(s.toks, spellOpt(t, d, tok, false)...)
		s.occs = append(s.occs, occurrence{d, from, len(s.toks), tok})
		return
	}
	tok := valueFor(t, d)
	s.toks = append(s.toks, spellOpt(t, d, tok, false)...)
	s.occs = append(s.occs, occurrence{d, from, len(s.toks), tok})
}

func (s *sentence) walk(t *Tape, n *specNode, ds *DeclSet) {
	if s.budget <= 0 {
		return
	}
	reps := 1
	if n.rep {
		reps = 1 + t.Draw(3)
	}
	for r := 0; r < reps; r++ {
		s.budget--
		switch n.kind {
		case nSeq:
			for _, k := range n.kids {
				s.walk(t, k, ds)
			}
		case nChoice:
			s.walk(t, n.kids[t.Draw(len(n.kids))], ds)
		case nOptional:
			if t.Draw(2) == 1 {
				s.walk(t, n.kids[0], ds)
			}
		case nGroup:
			s.walk(t, n.kids[0], ds)
		case nOptRef:
			s.emitOpt(t, n.decl)
		case nArgRef:
			from := len(s.toks)
			tok := valueFor(t, n.decl)
			if tok == "w" && elemKind(n.decl.Kind) == KString && len(s.toks)%2 == 0 {
				tok = "" // an empty string is a positional like any other
			}
			if strings.HasPrefix(tok, "-") && !s.afterDD {
				tok = "0"
			}
			s.toks = append(s.toks, tok)
			s.occs = append(s.occs, occurrence{n.decl, from, len(s.toks), tok})
		case nOptions:
			perm := t.Perm(len(ds.Opts))
			k := t.Draw(len(ds.Opts) + 1)
			for i := 0; i < k; i++ {
				d := ds.Opts[perm[i]]
				s.emitOpt(t, d)
				if d.Kind.IsList() && t.Draw(3) == 0 {
					s.emitOpt(t, d)
				}
			}
		case nFold:
			perm := t.Perm(len(n.fold))
			k := 1 + t.Draw(len(n.fold))
			folded := ""
			for i := 0; i < k; i++ {
				d := n.fold[perm[i]]
				if d.Kind == KBool && t.Draw(2) == 1 {
					sh, _ := optNames(d)
					folded += sh[1:]
					continue
				}
				s.emitOpt(t, d)
			}
			if folded != "" {
				s.toks = append(s.toks, "-"+folded)
			}
		case nDD:
			s.afterDD = true
			if t.Draw(2) == 1 {
				s.toks = append(s.toks, "--")
			}
		}
	}
}

// maxSentence bounds the command line: backtracking is exponential in the worst case by design.
const maxSentence = 8

var junkTokens = []string{"-", "--", "", "-z", "--zzz", "-a=", "x", "--alpha", "-ab", "--alpha=", "-a", "9", "-9"}

// foldAdjacent merges a bare short flag with the short-option token that follows it (`-a -b` -> `-ab`,
// `-a -svalue` -> `-asvalue`), each eligible pair with probability 1/2. Occurrence records are dropped.
func (s *sentence) foldAdjacent(t *Tape, ds *DeclSet) {
	shortKind := map[byte]ValKind{}
	for _, d := range ds.Opts {
		if sh, _ := optNames(d); sh != "" {
			shortKind[sh[1]] = d.Kind
		}
	}
	isShortTok := func(tok string) bool {
		if len(tok) < 2 || tok[0] != '-' || tok[1] == '-' {
			return false
		}
		_, ok := shortKind[tok[1]]
		return ok && (len(tok) == 2 || tok[2] != '=')
	}
	out := []string{}
	merged := false
	for i := 0; i < len(s.toks); i++ {
		tok := s.toks[i]
		for len(tok) >= 2 && isShortTok(tok) && i+1 < len(s.toks) {
			// every letter of tok so far must be a bare bool flag
			allBool := true
			for k := 1; k < len(tok); k++ {
				if kd, ok := shortKind[tok[k]]; !ok || kd != KBool {
					allBool = false
				}
			}
			if !allBool || !isShortTok(s.toks[i+1]) || t.Draw(2) == 0 {
				break
			}
			tok += s.toks[i+1][1:]
			i++
			merged = true
		}
		out = append(out, tok)
	}
	if merged {
		s.toks = out
		s.occs = nil
	}
}

// genSentence walks the spec, then sometimes mutates the result.
func genSentence(t *Tape, spec *specNode, ds *DeclSet, mutateProb int) *sentence {
	s := &sentence{budget: 40}
	s.walk(t, spec, ds)
	if mutateProb >= 0 && t.Draw(3) == 0 {
		s.foldAdjacent(t, ds)
	}
	if len(s.toks) > maxSentence {
		s.toks = s.toks[:maxSentence]
		s.occs = nil
	}
	if t.Draw(8) < mutateProb {
		s.occs = nil
		n := 1 + t.Draw(2)
		for i := 0; i < n; i++ {
			switch t.Draw(4) {
			case 0:
				if len(s.toks) > 0 {
					k := t.Draw(len(s.toks))
					s.toks = append(s.toks[:k:k], s.toks[k+1:]...)
				}
			case 1:
				if len(s.toks) > 0 {
					k := t.Draw(len(s.toks))
					s.toks = append(s.toks[:k+1:k+1], s.toks[k:]...)
				}
			case 2:
				if len(s.toks) > 1 {
					k := t.Draw(len(s.toks) - 1)
					s.toks[k], s.toks[k+1] = s.toks[k+1], s.toks[k]
				}
			case 3:
				k := t.Draw(len(s.toks) + 1)
				j := t.Pick(junkTokens)
				if t.Draw(3) == 0 {
					j = []string{"--al", "--alp=1", "--ga", "--gam=x", "--ep", "--a"}[t.Draw(6)] // abbreviated long names are undeclared options
				}
				s.toks = append(s.toks[:k:k], append([]string{j}, s.toks[k:]...)...)
			}
		}
	}
	return s
}

func describeDecls(ds *DeclSet) []string {
	out := []string{}
	for _, d := range ds.All() {
		out = append(out, d.Describe())
	}
	return out
}

// envFor sets a valid value for every variable listed by the declarations in mask.
func envFor(t *Tape, decls []*Decl, mask func(d *Decl) bool) EnvState {
	var env EnvState
	for _, d := range decls {
		if len(d.EnvVars) == 0 || !mask(d) {
			continue
		}
		ek := elemKind(d.Kind)
		val := t.Pick(validPool[ek])
		if ek == KString {
			val = "env" + strconv.Itoa(d.EnvVars[0])
		}
		if d.Kind.IsList() && t.Draw(2) == 1 {
			val += "," + t.Pick(validPool[ek])
		}
		if d.Kind == KStrings && t.Draw(6) == 0 {
			val = []string{",", " ", " , ", ",,", "\t"}[t.Draw(5)] // lists of empty strings are valid lists of strings
		}
		env.Set(d.EnvVars[0], val)
	}
	return env
}
