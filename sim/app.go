package main

import (
	"errors"
	"flag"
	"fmt"
	"io"
	"math"
	"reflect"
	"sort"
	"strconv"
	"strings"

	cli "github.com/jawher/mow.cli"
)

// ---------------------------------------------------------------------------
// Declarative description of an application. Generators produce these; Build turns
// one into a real mow.cli application whose callbacks, value types and variables
// belong to the simulator. The same description can be built any number of times
// (solo, rebuilt, concurrently), which is what C20 relies on.

type ValKind int

const (
	KBool ValKind = iota
	KString
	KInt
	KFloat
	KStrings
	KInts
	KFloats
	KVar
)

var kindNames = []string{"bool", "string", "int", "float64", "strings", "ints", "floats64", "var"}

func (k ValKind) String() string { return kindNames[k] }
func (k ValKind) IsList() bool   { return k == KStrings || k == KInts || k == KFloats }

type Decl struct {
	IsArg     bool
	Kind      ValKind
	Name      string   // option: names without dashes ("f force"); argument: NAME
	EnvVars   []int    // indices into the simulator's environment pool, in listed order
	Def       string   // scalar default, as a token valid for the kind
	DefList   []string // list default
	PtrForm   bool     // declare with the XxxPtr(into, ...) form
	PrePop    bool     // PtrForm only: the caller's variable already holds something when it is declared
	EnvSep    string   // separator of the names in the EnvVar list ("" = one blank); any white space is legal
	EnvPad    string   // white space around the EnvVar list
	BlankEnv  string   // the EnvVar list when no variable is listed: "" or white space only (names nothing)
	NoSBU     bool     // do not supply a SetByUser pointer
	Short     bool     // declare through the convenience methods (BoolOpt(name, value, desc), StringArgPtr(into, ...) ...): no env, no SetByUser
	HideValue bool
	Desc      string
	Probe     *ProbeSpec // KVar only

	// World state (C20): the default slice object of a multi-valued declaration as the user's program
	// holds it. When set, every build passes this very slice to the library, the way a program that
	// declares `Value: defaultTags` does; resetWorld re-creates it at the start of each history.
	sharedWith  *Decl // the host program passes the very same default slice to this declaration and to sharedWith
	liveStrings []string
	liveInts    []int
	liveFloats  []float64
	live        bool
}

// resetLive gives the declaration a pristine default slice object.
func (d *Decl) resetLive() {
	if !d.Kind.IsList() {
		return
	}
	d.live = true
	d.liveStrings, d.liveInts, d.liveFloats = nil, nil, nil
	switch d.Kind {
	case KStrings:
		d.liveStrings = append([]string(nil), d.DefList...)
	case KInts:
		for _, s := range d.DefList {
			d.liveInts = append(d.liveInts, atoiDef(s))
		}
	case KFloats:
		for _, s := range d.DefList {
			d.liveFloats = append(d.liveFloats, atofDef(s))
		}
	}
}

// resetWorld re-creates the user-program state (default slice objects) of the applications.
func resetWorld(apps ...*AppDecl) {
	var walk func(c *CmdDecl)
	walk = func(c *CmdDecl) {
		for _, d := range c.Decls {
			d.resetLive()
		}
		for _, s := range c.Subs {
			walk(s)
		}
	}
	for _, a := range apps {
		walk(a.Root)
	}
}

func (d *Decl) EnvVarString() string {
	names := make([]string, len(d.EnvVars))
	for i, k := range d.EnvVars {
		names[i] = envName(k)
	}
	sep := d.EnvSep
	if sep == "" {
		sep = " "
	}
	if len(names) == 0 {
		return d.BlankEnv // "" or white space only: no variable at all
	}
	return d.EnvPad + strings.Join(names, sep) + d.EnvPad
}

// Key identifies the declaration inside its command.
func (d *Decl) Key() string {
	if d.IsArg {
		return d.Name
	}
	return "-" + strings.Fields(d.Name)[0]
}

func (d *Decl) Describe() string {
	s := ""
	if d.IsArg {
		s = "arg " + d.Name
	} else {
		s = "opt " + strconv.Quote(d.Name)
	}
	s += " " + d.Kind.String()
	if d.Kind == KVar && d.Probe != nil {
		s += d.Probe.Describe()
	}
	if d.Kind.IsList() {
		s += fmt.Sprintf(" default=%q", d.DefList)
	} else if d.Kind != KVar {
		s += fmt.Sprintf(" default=%q", d.Def)
	}
	if len(d.EnvVars) > 0 {
		s += " env=" + strconv.Quote(d.EnvVarString())
	}
	if d.PtrForm {
		s += " ptrform"
		if d.PrePop {
			s += "(variable pre-populated)"
		}
	}
	if d.EnvSep != "" || d.EnvPad != "" {
		s += fmt.Sprintf(" envlist=%q", d.EnvVarString())
	}
	if d.NoSBU {
		s += " no-setbyuser"
	}
	if d.Short {
		s += " declared-with-convenience-method"
	}
	return s
}

type CBKind int

const (
	CBAbsent CBKind = iota
	CBReturn
	CBPanic
	CBExit
)

// CB is what a Before/Action/After does when called.
type CB struct {
	Kind      CBKind
	PanicKind int // which kind of value is raised
	ExitCode  int
	Nested    bool   // CBExit: the Exit is raised inside a nested application the callback runs (by the Set of one of its values)
	Help      int    // 1: the callback first calls PrintHelp on its command, 2: PrintLongHelp (public API)
	HelpTag   string // tag of the command whose help is printed ("" = the callback's own command)
}

func (c CB) String() string {
	if c.Help > 0 && c.Kind != CBAbsent {
		h := c
		h.Help = 0
		of := ""
		if c.HelpTag != "" {
			of = " of " + c.HelpTag
		}
		return []string{"", "PrintHelp" + of + " then ", "PrintLongHelp" + of + " then "}[c.Help] + h.String()
	}
	switch c.Kind {
	case CBReturn:
		return "returns"
	case CBPanic:
		return "panics(" + panicKindNames[c.PanicKind%len(panicKindNames)] + ")"
	case CBExit:
		if c.Nested {
			return fmt.Sprintf("runs a nested app whose value calls Exit(%d)", c.ExitCode)
		}
		return fmt.Sprintf("Exit(%d)", c.ExitCode)
	}
	return "absent"
}

var panicKindNames = []string{"string", "error", "int", "pointer", "slice", "struct", "runtime-error", "error-with-ExitCode-method", "named-int", "stringer", "typed-nil-error", "nil-slice"}
var exitCodes = []int{0, 1, 2, 3, 64, 255, -1, 127, 256, -128}

type CmdDecl struct {
	Name       string // names separated by blanks, first is the canonical one
	Desc       string
	LongDesc   string
	Spec       string
	Hidden     bool
	Decls      []*Decl
	Before     CB
	After      CB
	Action     CB
	Subs       []*CmdDecl
	MidEnv     *EnvState           // when set: the environment the host program installs just before declaration number MidAt
	MidAt      int                 // (each declaration reads the environment at its own moment)
	PolicyLate *flag.ErrorHandling // assigned to the command after it declared its sub-commands (they do not inherit it)
	Policy     *flag.ErrorHandling // set by the command's own initializer (inherited by the sub-commands it declares afterwards)

	Tag string // unique id inside the app: "r", "r.0", "r.0.1": set by Finish
}

type AppDecl struct {
	Root    *CmdDecl
	Policy  flag.ErrorHandling
	Version []string // nil or {flag names, version text}
}

func (a *AppDecl) Finish() {
	var walk func(c *CmdDecl, tag string)
	walk = func(c *CmdDecl, tag string) {
		c.Tag = tag
		for i, s := range c.Subs {
			walk(s, tag+"."+strconv.Itoa(i))
		}
	}
	walk(a.Root, "r")
}

func policyName(p flag.ErrorHandling) string {
	switch p {
	case flag.ContinueOnError:
		return "ContinueOnError"
	case flag.ExitOnError:
		return "ExitOnError"
	case flag.PanicOnError:
		return "PanicOnError"
	}
	return "?"
}

func (a *AppDecl) Describe() interface{} {
	var walk func(c *CmdDecl) map[string]interface{}
	walk = func(c *CmdDecl) map[string]interface{} {
		m := map[string]interface{}{"name": c.Name, "tag": c.Tag}
		if c.Spec != "" {
			m["spec"] = c.Spec
		}
		if len(c.Decls) > 0 {
			ds := []string{}
			for _, d := range c.Decls {
				ds = append(ds, d.Describe())
			}
			m["decls"] = ds
		}
		m["before"], m["action"], m["after"] = c.Before.String(), c.Action.String(), c.After.String()
		if c.LongDesc != "" {
			m["longdesc"] = c.LongDesc
		}
		if c.Policy != nil {
			m["error_handling_set_by_initializer"] = policyName(*c.Policy)
		}
		if c.PolicyLate != nil {
			m["error_handling_assigned_after_declaring_sub_commands"] = policyName(*c.PolicyLate)
		}
		if c.Hidden {
			m["hidden"] = true
		}
		if len(c.Subs) > 0 {
			subs := []interface{}{}
			for _, s := range c.Subs {
				subs = append(subs, walk(s))
			}
			m["subs"] = subs
		}
		return m
	}
	m := map[string]interface{}{"policy": policyName(a.Policy), "root": walk(a.Root)}
	if a.Version != nil {
		m["version"] = a.Version
	}
	return m
}

// ---------------------------------------------------------------------------
// Probe value types: user-supplied flag.Value implementations with every combination
// of the optional methods. Every call is logged.

type ProbeSpec struct {
	HasBool    bool
	HasClear   bool
	HasDefault bool
	BoolResult bool // what IsBoolFlag returns (when present)
	FailAt     int  // the FailAt-th Set call in the run phase fails (0 = never)
	FailDecl   int  // the FailDecl-th Set call in the declaration phase fails (0 = never)
	Unhashable bool // the value's dynamic type is a slice type (with Clear): it cannot be a map key nor be compared
	ErrKind    int  // which error a failing Set returns (see probeErrors)
	YieldInSet bool // scheduled worlds: a Run-phase Set is a scheduling point (the value type is simulator-owned code)
}

func (s *ProbeSpec) Describe() string {
	r := "{"
	if s.HasBool {
		r += fmt.Sprintf("IsBoolFlag=%v ", s.BoolResult)
	}
	if s.HasClear {
		r += "Clear "
	}
	if s.HasDefault {
		r += "IsDefault "
	}
	if s.Unhashable {
		r += "unhashable-slice-type "
	}
	if s.FailAt > 0 {
		r += fmt.Sprintf("SetFailsAtRunCall=%d(%T %q) ", s.FailAt, probeErrors[(s.ErrKind+1)%len(probeErrors)], probeErrors[(s.ErrKind+1)%len(probeErrors)].Error())
	}
	if s.FailDecl > 0 {
		r += fmt.Sprintf("SetFailsAtDeclCall=%d ", s.FailDecl)
	}
	return strings.TrimSpace(r) + "}"
}

type Call struct {
	Method string
	Arg    string
	Run    bool // false: during declaration; true: afterwards
	Failed bool
}

func (c Call) String() string {
	s := c.Method
	if c.Method == "Set" {
		s += "(" + strconv.Quote(c.Arg) + ")"
		if c.Failed {
			s += "!err"
		}
	}
	if !c.Run {
		s = "decl:" + s
	}
	return s
}

type probeCore struct {
	spec     *ProbeSpec
	inst     *Instance
	proc     *Proc
	name     string
	Log      []Call
	state    []string
	declared bool
	runSets  int
	declSets int
}

var errProbeSet = errors.New("probe value refuses this token")

type probeErrType struct{ code int }

func (e *probeErrType) Error() string { return "" }

// probeErrors: what a user type may return from Set. Whatever it is, it turns the invocation into a usage error.
// sliceErr is an error whose dynamic type cannot be a map key or be compared
type sliceErr []string

func (e sliceErr) Error() string { return "problems: " + strings.Join(e, "; ") }

var probeErrors = []error{sliceErr{"first", "second"}, errProbeSet, flag.ErrHelp, fmt.Errorf("cannot set: %w", flag.ErrHelp), io.EOF, &probeErrType{7}, errors.New("incorrect usage"), errors.New("help requested")}

func (c *probeCore) Set(s string) error {
	if c.spec.YieldInSet && c.declared && c.inst != nil {
		if sc := theSched; sc != nil && !raceMode {
			sc.yield(c.inst.Proc, "value.Set")
		}
	}
	call := Call{Method: "Set", Arg: s, Run: c.declared}
	fail := false
	if c.declared {
		c.runSets++
		fail = c.spec.FailAt > 0 && c.runSets == c.spec.FailAt
	} else {
		c.declSets++
		fail = c.spec.FailDecl > 0 && c.declSets == c.spec.FailDecl
	}
	if fail {
		call.Failed = true
		c.Log = append(c.Log, call)
		return probeErrors[(c.spec.ErrKind+1)%len(probeErrors)]
	}
	c.state = append(c.state, s)
	c.Log = append(c.Log, call)
	return nil
}
func (c *probeCore) String() string {
	if c == nil {
		return ""
	}
	c.Log = append(c.Log, Call{Method: "String", Run: c.declared})
	return "probe" + fmt.Sprintf("%q", c.state)
}
func (c *probeCore) isBool() bool {
	c.Log = append(c.Log, Call{Method: "IsBoolFlag", Run: c.declared})
	return c.spec.BoolResult
}
func (c *probeCore) clear() {
	c.Log = append(c.Log, Call{Method: "Clear", Run: c.declared})
	c.state = nil
}
func (c *probeCore) isDefault() bool {
	c.Log = append(c.Log, Call{Method: "IsDefault", Run: c.declared})
	return len(c.state) == 0
}

type p0 struct{ *probeCore }
type pB struct{ *probeCore }
type pC struct{ *probeCore }
type pD struct{ *probeCore }
type pBC struct{ *probeCore }
type pBD struct{ *probeCore }
type pCD struct{ *probeCore }
type pBCD struct{ *probeCore }

func (p pB) IsBoolFlag() bool   { return p.isBool() }
func (p pBC) IsBoolFlag() bool  { return p.isBool() }
func (p pBD) IsBoolFlag() bool  { return p.isBool() }
func (p pBCD) IsBoolFlag() bool { return p.isBool() }
func (p pC) Clear()             { p.clear() }
func (p pBC) Clear()            { p.clear() }
func (p pCD) Clear()            { p.clear() }
func (p pBCD) Clear()           { p.clear() }
func (p pD) IsDefault() bool    { return p.isDefault() }
func (p pBD) IsDefault() bool   { return p.isDefault() }
func (p pCD) IsDefault() bool   { return p.isDefault() }
func (p pBCD) IsDefault() bool  { return p.isDefault() }

// pUnhashC: a multi-valued user type whose dynamic type is a slice (like `type labels map[string]string`)
type pUnhashC []*probeCore

func (p pUnhashC) Set(s string) error { return p[0].Set(s) }
func (p pUnhashC) String() string     { return p[0].String() }
func (p pUnhashC) Clear()             { p[0].clear() }

func newProbe(spec *ProbeSpec, inst *Instance, name string) (flag.Value, *probeCore) {
	c := &probeCore{spec: spec, inst: inst, proc: inst.Proc, name: name}
	if spec.Unhashable {
		return pUnhashC{c}, c
	}
	switch {
	case spec.HasBool && spec.HasClear && spec.HasDefault:
		return pBCD{c}, c
	case spec.HasBool && spec.HasClear:
		return pBC{c}, c
	case spec.HasBool && spec.HasDefault:
		return pBD{c}, c
	case spec.HasClear && spec.HasDefault:
		return pCD{c}, c
	case spec.HasBool:
		return pB{c}, c
	case spec.HasClear:
		return pC{c}, c
	case spec.HasDefault:
		return pD{c}, c
	}
	return p0{c}, c
}

// ---------------------------------------------------------------------------
// Instance: one built application

type VarSnap struct {
	Val string
	SBU string // "true", "false" or "-" when no SetByUser pointer was supplied
}

type boundVar struct {
	decl  *Decl
	ptr   interface{} // *bool, *string, ...
	sbu   *bool
	probe *probeCore
}

// LowerSetByUser sets every SetByUser flag of the host program back to false.
func (inst *Instance) LowerSetByUser() {
	for _, bv := range inst.vars {
		if bv.sbu != nil {
			*bv.sbu = false
		}
	}
}

type Instance struct {
	App  *AppDecl
	Proc *Proc
	Cli  *cli.Cli
	vars map[string]*boundVar // "tag/key"
	keys []string

	cmds map[string]*cli.Cmd // tag -> the library's command object, once configured

	ActionSnap map[string]VarSnap // taken inside the Action that ran (last one if several)
	ActionTag  string
	Inits      map[string]int // how often each command's initializer ran
}

type panicStruct struct {
	A int
	B string
}

func (inst *Instance) panicValue(ev string, kind int) interface{} {
	switch kind % len(panicKindNames) {
	case 0:
		return "boom:" + ev
	case 1:
		return errors.New("boom:" + ev)
	case 2:
		return 40000 + len(inst.Proc.Events)
	case 3:
		return &panicStruct{1, ev}
	case 4:
		return []string{"boom", ev}
	case 7:
		return &exitishError{code: 3 + len(ev)}
	case 8:
		return namedInt(7000 + len(inst.Proc.Events))
	case 9:
		return stringerVal{ev}
	case 10:
		var e *exitishError // a nil pointer inside a non-nil interface value: still a raised value
		return error(e)
	case 11:
		var none []string
		return none
	}
	return panicStruct{2, ev}
}

// exitishError has the shape of *exec.ExitError: an error with an ExitCode method. It is not a request to exit.
type exitishError struct{ code int }

func (e *exitishError) Error() string {
	if e == nil {
		return "typed nil error"
	}
	return "child process failed"
}
func (e *exitishError) ExitCode() int {
	if e == nil {
		return 0
	}
	return e.code
}

type namedInt int

type stringerVal struct{ s string }

func (v stringerVal) String() string { return "stringer:" + v.s }

type exitMark int

// sameValue reports whether b is the very value a (identity for pointers and slices, equality for plain values).
func sameValue(a, b interface{}) (same bool) {
	defer func() {
		if recover() != nil {
			same = false
		}
	}()
	if a == nil || b == nil {
		return a == nil && b == nil
	}
	ta, tb := reflect.TypeOf(a), reflect.TypeOf(b)
	if ta != tb {
		return false
	}
	if ta.Kind() == reflect.Slice {
		va, vb := reflect.ValueOf(a), reflect.ValueOf(b)
		return va.Pointer() == vb.Pointer() && va.Len() == vb.Len()
	}
	return a == b
}

func (inst *Instance) callback(c *cli.Cmd, ev string, cb CB, isAction bool, tag string) func() {
	if cb.Kind == CBAbsent {
		return nil
	}
	return func() {
		p := inst.Proc // read at call time: the same instance can be run again as another simulated process
		p.Emit(ev)
		if isAction {
			inst.ActionSnap = inst.Snapshot()
			inst.ActionTag = tag
		}
		if s := theSched; s != nil && !raceMode {
			s.yield(p, "callback")
		}
		target := c
		if other := inst.cmds[cb.HelpTag]; cb.HelpTag != "" && other != nil {
			target = other
		}
		switch cb.Help {
		case 1:
			target.PrintHelp()
		case 2:
			target.PrintLongHelp()
		}
		switch cb.Kind {
		case CBPanic:
			if cb.PanicKind%len(panicKindNames) == 6 {
				// a genuine runtime.Error raised by the Go runtime inside user code
				defer func() {
					r := recover()
					p.Raised[ev] = r
					panic(r)
				}()
				var m map[string]int
				m[ev] = 1
			}
			v := inst.panicValue(ev, cb.PanicKind)
			p.Raised[ev] = v
			panic(v)
		case CBExit:
			p.Raised[ev] = exitMark(cb.ExitCode)
			if cb.Nested {
				// the callback runs another application; one of its values asks for the exit while being set.
				// The request travels up through the nested Run into this callback: same thing as calling Exit here.
				inner := cli.App("inner", "")
				inner.ErrorHandling = flag.ContinueOnError
				inner.Spec = "[-e]"
				inner.Var(cli.VarOpt{Name: "e", Value: exitingValue(cb.ExitCode)})
				inner.Action = func() {}
				inner.Run([]string{"inner", "-e=now"})
			}
			cli.Exit(cb.ExitCode)
		}
	}
}

// Build constructs the application. Root-level declarations happen here (declaration time);
// sub-command declarations happen lazily inside Run, as the library does it.
func Build(app *AppDecl, p *Proc) *Instance {
	inst := &Instance{App: app, Proc: p, vars: map[string]*boundVar{}, Inits: map[string]int{}, cmds: map[string]*cli.Cmd{}}
	c := cli.App(strings.Fields(app.Root.Name)[0], app.Root.Desc)
	inst.Cli = c
	c.ErrorHandling = app.Policy
	if app.Version != nil {
		c.Version(app.Version[0], app.Version[1])
	}
	inst.configure(c.Cmd, app.Root)
	return inst
}

func (inst *Instance) configure(c *cli.Cmd, d *CmdDecl) {
	inst.Inits[d.Tag]++
	inst.cmds[d.Tag] = c
	if d.Policy != nil {
		c.ErrorHandling = *d.Policy
	}
	c.Spec = d.Spec
	c.LongDesc = d.LongDesc
	c.Hidden = d.Hidden
	for i, decl := range d.Decls {
		if d.MidEnv != nil && i == d.MidAt {
			d.MidEnv.Apply()
		}
		inst.declare(c, d, decl)
	}
	c.Before = inst.callback(c, "B:"+d.Tag, d.Before, false, d.Tag)
	c.Action = inst.callback(c, "ACT:"+d.Tag, d.Action, true, d.Tag)
	c.After = inst.callback(c, "A:"+d.Tag, d.After, false, d.Tag)
	for _, sub := range d.Subs {
		sub := sub
		c.Command(sub.Name, sub.Desc, func(sc *cli.Cmd) { inst.configure(sc, sub) })
	}
	if d.PolicyLate != nil {
		c.ErrorHandling = *d.PolicyLate
	}
}

func atoiDef(s string) int {
	if s == "" {
		return 0
	}
	v, err := strconv.ParseInt(s, 10, 64)
	if err != nil {
		panic("harness: bad int default " + s)
	}
	return int(v)
}

func atofDef(s string) float64 {
	if s == "" {
		return 0
	}
	v, err := strconv.ParseFloat(s, 64)
	if err != nil {
		panic("harness: bad float default " + s)
	}
	return v
}

func atobDef(s string) bool {
	if s == "" {
		return false
	}
	v, err := strconv.ParseBool(s)
	if err != nil {
		panic("harness: bad bool default " + s)
	}
	return v
}

func (inst *Instance) declare(c *cli.Cmd, cd *CmdDecl, d *Decl) {
	bv := &boundVar{decl: d}
	if !d.NoSBU {
		bv.sbu = new(bool)
	}
	key := cd.Tag + "/" + d.Key()
	inst.vars[key] = bv
	inst.keys = append(inst.keys, key)
	env := d.EnvVarString()
	if d.Short {
		bv.sbu = nil
		inst.declareShort(c, d, bv)
		return
	}
	switch d.Kind {
	case KBool:
		def := atobDef(d.Def)
		var prm cli.BoolParam
		if d.IsArg {
			prm = cli.BoolArg{Name: d.Name, Desc: d.Desc, EnvVar: env, Value: def, HideValue: d.HideValue, SetByUser: bv.sbu}
		} else {
			prm = cli.BoolOpt{Name: d.Name, Desc: d.Desc, EnvVar: env, Value: def, HideValue: d.HideValue, SetByUser: bv.sbu}
		}
		if d.PtrForm {
			v := new(bool)
			*v = d.PrePop
			c.BoolPtr(v, prm)
			bv.ptr = v
		} else {
			bv.ptr = c.Bool(prm)
		}
	case KString:
		var prm cli.StringParam
		if d.IsArg {
			prm = cli.StringArg{Name: d.Name, Desc: d.Desc, EnvVar: env, Value: d.Def, HideValue: d.HideValue, SetByUser: bv.sbu}
		} else {
			prm = cli.StringOpt{Name: d.Name, Desc: d.Desc, EnvVar: env, Value: d.Def, HideValue: d.HideValue, SetByUser: bv.sbu}
		}
		if d.PtrForm {
			v := new(string)
			if d.PrePop {
				*v = "stale"
			}
			c.StringPtr(v, prm)
			bv.ptr = v
		} else {
			bv.ptr = c.String(prm)
		}
	case KInt:
		def := atoiDef(d.Def)
		var prm cli.IntParam
		if d.IsArg {
			prm = cli.IntArg{Name: d.Name, Desc: d.Desc, EnvVar: env, Value: def, HideValue: d.HideValue, SetByUser: bv.sbu}
		} else {
			prm = cli.IntOpt{Name: d.Name, Desc: d.Desc, EnvVar: env, Value: def, HideValue: d.HideValue, SetByUser: bv.sbu}
		}
		if d.PtrForm {
			v := new(int)
			if d.PrePop {
				*v = 99
			}
			c.IntPtr(v, prm)
			bv.ptr = v
		} else {
			bv.ptr = c.Int(prm)
		}
	case KFloat:
		def := atofDef(d.Def)
		var prm cli.Float64Param
		if d.IsArg {
			prm = cli.Float64Arg{Name: d.Name, Desc: d.Desc, EnvVar: env, Value: def, HideValue: d.HideValue, SetByUser: bv.sbu}
		} else {
			prm = cli.Float64Opt{Name: d.Name, Desc: d.Desc, EnvVar: env, Value: def, HideValue: d.HideValue, SetByUser: bv.sbu}
		}
		if d.PtrForm {
			v := new(float64)
			if d.PrePop {
				*v = 9.5
			}
			c.Float64Ptr(v, prm)
			bv.ptr = v
		} else {
			bv.ptr = c.Float64(prm)
		}
	case KStrings:
		def := append([]string(nil), d.DefList...)
		if d.live {
			def = d.liveStrings
		}
		if d.sharedWith != nil && d.sharedWith.live {
			def = d.sharedWith.liveStrings
		}
		var prm cli.StringsParam
		if d.IsArg {
			prm = cli.StringsArg{Name: d.Name, Desc: d.Desc, EnvVar: env, Value: def, HideValue: d.HideValue, SetByUser: bv.sbu}
		} else {
			prm = cli.StringsOpt{Name: d.Name, Desc: d.Desc, EnvVar: env, Value: def, HideValue: d.HideValue, SetByUser: bv.sbu}
		}
		if d.PtrForm {
			v := new([]string)
			if d.PrePop {
				*v = []string{"stale"}
			}
			c.StringsPtr(v, prm)
			bv.ptr = v
		} else {
			bv.ptr = c.Strings(prm)
		}
	case KInts:
		var def []int
		for _, s := range d.DefList {
			def = append(def, atoiDef(s))
		}
		if d.live {
			def = d.liveInts
		}
		if d.sharedWith != nil && d.sharedWith.live {
			def = d.sharedWith.liveInts
		}
		var prm cli.IntsParam
		if d.IsArg {
			prm = cli.IntsArg{Name: d.Name, Desc: d.Desc, EnvVar: env, Value: def, HideValue: d.HideValue, SetByUser: bv.sbu}
		} else {
			prm = cli.IntsOpt{Name: d.Name, Desc: d.Desc, EnvVar: env, Value: def, HideValue: d.HideValue, SetByUser: bv.sbu}
		}
		if d.PtrForm {
			v := new([]int)
			if d.PrePop {
				*v = []int{9, 9}
			}
			c.IntsPtr(v, prm)
			bv.ptr = v
		} else {
			bv.ptr = c.Ints(prm)
		}
	case KFloats:
		var def []float64
		for _, s := range d.DefList {
			def = append(def, atofDef(s))
		}
		if d.live {
			def = d.liveFloats
		}
		if d.sharedWith != nil && d.sharedWith.live {
			def = d.sharedWith.liveFloats
		}
		var prm cli.Floats64Param
		if d.IsArg {
			prm = cli.Floats64Arg{Name: d.Name, Desc: d.Desc, EnvVar: env, Value: def, HideValue: d.HideValue, SetByUser: bv.sbu}
		} else {
			prm = cli.Floats64Opt{Name: d.Name, Desc: d.Desc, EnvVar: env, Value: def, HideValue: d.HideValue, SetByUser: bv.sbu}
		}
		if d.PtrForm {
			v := new([]float64)
			if d.PrePop {
				*v = []float64{9.5}
			}
			c.Floats64Ptr(v, prm)
			bv.ptr = v
		} else {
			bv.ptr = c.Floats64(prm)
		}
	case KVar:
		val, core := newProbe(d.Probe, inst, key)
		bv.probe = core
		if d.IsArg {
			c.Var(cli.VarArg{Name: d.Name, Desc: d.Desc, EnvVar: env, Value: val, HideValue: d.HideValue, SetByUser: bv.sbu})
		} else {
			c.Var(cli.VarOpt{Name: d.Name, Desc: d.Desc, EnvVar: env, Value: val, HideValue: d.HideValue, SetByUser: bv.sbu})
		}
		core.declared = true
	}
}

func fmtFloat(f float64) string {
	if math.IsNaN(f) {
		return "NaN"
	}
	if f == 0 && math.Signbit(f) {
		return "-0"
	}
	return strconv.FormatFloat(f, 'g', -1, 64)
}

func renderVar(bv *boundVar) string {
	switch v := bv.ptr.(type) {
	case *bool:
		return strconv.FormatBool(*v)
	case *string:
		return strconv.Quote(*v)
	case *int:
		return strconv.Itoa(*v)
	case *float64:
		return fmtFloat(*v)
	case *[]string:
		parts := make([]string, len(*v))
		for i, s := range *v {
			parts[i] = strconv.Quote(s)
		}
		return "[" + strings.Join(parts, ",") + "]"
	case *[]int:
		parts := make([]string, len(*v))
		for i, s := range *v {
			parts[i] = strconv.Itoa(s)
		}
		return "[" + strings.Join(parts, ",") + "]"
	case *[]float64:
		parts := make([]string, len(*v))
		for i, s := range *v {
			parts[i] = fmtFloat(s)
		}
		return "[" + strings.Join(parts, ",") + "]"
	}
	if bv.probe != nil {
		return fmt.Sprintf("probe%q", bv.probe.state)
	}
	return "?"
}

// Snapshot reads every variable declared so far.
func (inst *Instance) Snapshot() map[string]VarSnap {
	m := make(map[string]VarSnap, len(inst.vars))
	for k, bv := range inst.vars {
		s := VarSnap{Val: renderVar(bv), SBU: "-"}
		if bv.sbu != nil {
			s.SBU = strconv.FormatBool(*bv.sbu)
		}
		m[k] = s
	}
	return m
}

func snapString(m map[string]VarSnap) string {
	keys := make([]string, 0, len(m))
	for k := range m {
		keys = append(keys, k)
	}
	sort.Strings(keys)
	var sb strings.Builder
	for _, k := range keys {
		fmt.Fprintf(&sb, "%s=%s(sbu=%s);", k, m[k].Val, m[k].SBU)
	}
	return sb.String()
}

// Probe returns the call log of the probe value declared under key ("tag/key").
func (inst *Instance) ProbeLog(key string) []Call {
	if bv := inst.vars[key]; bv != nil && bv.probe != nil {
		return bv.probe.Log
	}
	return nil
}

// declareShort declares through the convenience methods of Cmd.
func (inst *Instance) declareShort(c *cli.Cmd, d *Decl, bv *boundVar) {
	switch d.Kind {
	case KBool:
		def := atobDef(d.Def)
		switch {
		case d.PtrForm && d.IsArg:
			v := new(bool)
			*v = d.PrePop
			c.BoolArgPtr(v, d.Name, def, d.Desc)
			bv.ptr = v
		case d.PtrForm:
			v := new(bool)
			*v = d.PrePop
			c.BoolOptPtr(v, d.Name, def, d.Desc)
			bv.ptr = v
		case d.IsArg:
			bv.ptr = c.BoolArg(d.Name, def, d.Desc)
		default:
			bv.ptr = c.BoolOpt(d.Name, def, d.Desc)
		}
	case KString:
		switch {
		case d.PtrForm && d.IsArg:
			v := new(string)
			c.StringArgPtr(v, d.Name, d.Def, d.Desc)
			bv.ptr = v
		case d.PtrForm:
			v := new(string)
			c.StringOptPtr(v, d.Name, d.Def, d.Desc)
			bv.ptr = v
		case d.IsArg:
			bv.ptr = c.StringArg(d.Name, d.Def, d.Desc)
		default:
			bv.ptr = c.StringOpt(d.Name, d.Def, d.Desc)
		}
	case KInt:
		def := atoiDef(d.Def)
		switch {
		case d.PtrForm && d.IsArg:
			v := new(int)
			c.IntArgPtr(v, d.Name, def, d.Desc)
			bv.ptr = v
		case d.PtrForm:
			v := new(int)
			c.IntOptPtr(v, d.Name, def, d.Desc)
			bv.ptr = v
		case d.IsArg:
			bv.ptr = c.IntArg(d.Name, def, d.Desc)
		default:
			bv.ptr = c.IntOpt(d.Name, def, d.Desc)
		}
	case KFloat:
		def := atofDef(d.Def)
		switch {
		case d.PtrForm && d.IsArg:
			v := new(float64)
			c.Float64ArgPtr(v, d.Name, def, d.Desc)
			bv.ptr = v
		case d.PtrForm:
			v := new(float64)
			c.Float64OptPtr(v, d.Name, def, d.Desc)
			bv.ptr = v
		case d.IsArg:
			bv.ptr = c.Float64Arg(d.Name, def, d.Desc)
		default:
			bv.ptr = c.Float64Opt(d.Name, def, d.Desc)
		}
	case KStrings:
		def := append([]string(nil), d.DefList...)
		switch {
		case d.PtrForm && d.IsArg:
			v := new([]string)
			if d.PrePop {
				*v = []string{"stale"}
			}
			c.StringsArgPtr(v, d.Name, def, d.Desc)
			bv.ptr = v
		case d.PtrForm:
			v := new([]string)
			if d.PrePop {
				*v = []string{"stale"}
			}
			c.StringsOptPtr(v, d.Name, def, d.Desc)
			bv.ptr = v
		case d.IsArg:
			bv.ptr = c.StringsArg(d.Name, def, d.Desc)
		default:
			bv.ptr = c.StringsOpt(d.Name, def, d.Desc)
		}
	case KInts:
		var def []int
		for _, s := range d.DefList {
			def = append(def, atoiDef(s))
		}
		switch {
		case d.PtrForm && d.IsArg:
			v := new([]int)
			if d.PrePop {
				*v = []int{9}
			}
			c.IntsArgPtr(v, d.Name, def, d.Desc)
			bv.ptr = v
		case d.PtrForm:
			v := new([]int)
			if d.PrePop {
				*v = []int{9}
			}
			c.IntsOptPtr(v, d.Name, def, d.Desc)
			bv.ptr = v
		case d.IsArg:
			bv.ptr = c.IntsArg(d.Name, def, d.Desc)
		default:
			bv.ptr = c.IntsOpt(d.Name, def, d.Desc)
		}
	case KFloats:
		var def []float64
		for _, s := range d.DefList {
			def = append(def, atofDef(s))
		}
		switch {
		case d.PtrForm && d.IsArg:
			v := new([]float64)
			if d.PrePop {
				*v = []float64{9.5}
			}
			c.Floats64ArgPtr(v, d.Name, def, d.Desc)
			bv.ptr = v
		case d.PtrForm:
			v := new([]float64)
			if d.PrePop {
				*v = []float64{9.5}
			}
			c.Floats64OptPtr(v, d.Name, def, d.Desc)
			bv.ptr = v
		case d.IsArg:
			bv.ptr = c.Floats64Arg(d.Name, def, d.Desc)
		default:
			bv.ptr = c.Floats64Opt(d.Name, def, d.Desc)
		}
	case KVar:
		val, core := newProbe(d.Probe, inst, inst.keys[len(inst.keys)-1])
		bv.probe = core
		if d.IsArg {
			c.VarArg(d.Name, val, d.Desc)
		} else {
			c.VarOpt(d.Name, val, d.Desc)
		}
		core.declared = true
	}
}

// exitingValue is a user value whose Set calls cli.Exit.
type exitingValue int

func (e exitingValue) Set(string) error { cli.Exit(int(e)); return nil }
func (e exitingValue) String() string   { return "" }
