package main

import (
	"strconv"
	"strings"
)

// Reference semantics of typed values, defined by strconv on the token — never by the
// library's own value types.

func elemKind(k ValKind) ValKind {
	switch k {
	case KStrings:
		return KString
	case KInts:
		return KInt
	case KFloats:
		return KFloat
	}
	return k
}

// parseTok returns the canonical rendering of the value a token denotes for a scalar kind,
// and whether strconv accepts it.
func parseTok(k ValKind, tok string) (string, bool) {
	switch k {
	case KBool:
		v, err := strconv.ParseBool(tok)
		if err != nil {
			return "", false
		}
		return strconv.FormatBool(v), true
	case KInt:
		v, err := strconv.ParseInt(tok, 10, 64)
		if err != nil {
			return "", false
		}
		return strconv.Itoa(int(v)), true
	case KFloat:
		v, err := strconv.ParseFloat(tok, 64)
		if err != nil {
			return "", false
		}
		return fmtFloat(v), true
	case KString:
		return strconv.Quote(tok), true
	}
	return "", false
}

func renderList(elems []string) string { return "[" + strings.Join(elems, ",") + "]" }

// parseAll renders the value of a container that received exactly these command-line tokens.
func parseAll(k ValKind, toks []string) (string, bool) {
	if k.IsList() {
		out := []string{}
		for _, t := range toks {
			r, ok := parseTok(elemKind(k), t)
			if !ok {
				return "", false
			}
			out = append(out, r)
		}
		return renderList(out), true
	}
	return parseTok(k, toks[len(toks)-1])
}

// envValue is the environment part of the precedence model: the value given by the first
// listed variable that is set, non-empty and valid for the kind.
func envValue(k ValKind, vars []int, env EnvState) (string, bool) {
	for _, v := range vars {
		s, set := env.Get(v)
		if !set || s == "" {
			continue
		}
		if k.IsList() {
			parts := strings.Split(s, ",")
			out := []string{}
			ok := true
			for _, p := range parts {
				r, good := parseTok(elemKind(k), strings.TrimSpace(p))
				if !good {
					ok = false
					break
				}
				out = append(out, r)
			}
			if ok {
				return renderList(out), true
			}
			continue
		}
		if r, ok := parseTok(k, s); ok {
			return r, true
		}
	}
	return "", false
}

func defaultValue(d *Decl) string {
	if d.Kind.IsList() {
		out := []string{}
		for _, t := range d.DefList {
			r, ok := parseTok(elemKind(d.Kind), t)
			if !ok {
				panic("harness: invalid default " + t)
			}
			out = append(out, r)
		}
		return renderList(out)
	}
	def := d.Def
	if def == "" {
		switch d.Kind {
		case KBool:
			def = "false"
		case KInt, KFloat:
			def = "0"
		}
	}
	r, ok := parseTok(d.Kind, def)
	if !ok {
		panic("harness: invalid default " + def)
	}
	return r
}

// precedenceModel: command line, then environment, then default; and the SetByUser flag.
func precedenceModel(d *Decl, cliToks []string, env EnvState) (val string, sbu bool) {
	if len(cliToks) > 0 {
		v, ok := parseAll(d.Kind, cliToks)
		if !ok {
			panic("harness: precedence model needs valid command-line tokens")
		}
		return v, true
	}
	if v, ok := envValue(d.Kind, d.EnvVars, env); ok {
		return v, false
	}
	return defaultValue(d), false
}
