package main

import (
	"fmt"
	"os"
	"os/exec"
	"path/filepath"
	"strconv"
	"strings"
	"sync"
	"time"
)

// Component D of C20: the same seeded worlds on genuinely parallel goroutines in a binary
// built with -race. Which interleaving occurs is NOT decided by the simulator here (the
// cooperative scheduler serialises goroutines through channel hand-offs, which creates
// happens-before edges and blinds the detector). It is sound because the detector reports
// only real races; it is outside the "one seed, one execution" discipline and labelled so.

func raceRunMain(f flags) int {
	raceMode, gidMode = true, true
	installSeams()
	seed, _ := strconv.ParseUint(f.str("seed", "1"), 10, 64)
	from, count, repeat := f.int("from", 0), f.int("count", 1), f.int("repeat", 1)
	stride := f.int("stride", 1)
	dir, w := f.str("dir", "."), f.int("w", 0)
	deadline := f.int("deadline", 0)
	prog, _ := os.OpenFile(filepath.Join(dir, fmt.Sprintf("raceprogress.%d", w)), os.O_CREATE|os.O_WRONLY, 0o644)
	var buf [32]byte
	worlds, mismatches := 0, 0
	for k := 0; k < count; k++ {
		idx := from + k*stride
		if deadline > 0 && time.Now().Unix() > int64(deadline) {
			break
		}
		if prog != nil {
			n := copy(buf[:], fmt.Sprintf("%d\n", idx))
			for j := n; j < len(buf); j++ {
				buf[j] = ' '
			}
			prog.WriteAt(buf[:], 0)
		}
		for r := 0; r < repeat; r++ {
			t := NewTape(mix(seed, fnv64("C20-race"), uint64(idx)))
			worlds++
			if m := raceWorld(t); m != "" {
				mismatches++
				fmt.Printf("MISMATCH world=%d %s\n", idx, m)
				if strings.HasPrefix(m, "HANG") {
					// goroutines are left blocked inside the library: this process cannot go on
					fmt.Printf("RACEDONE worlds=%d mismatches=%d\n", worlds, mismatches)
					os.Exit(3)
				}
				break
			}
		}
	}
	fmt.Printf("RACEDONE worlds=%d mismatches=%d skipped=%d\n", worlds, mismatches, raceSkipped)
	if mismatches > 0 {
		return 3
	}
	return 0
}

type raceStageResult struct {
	Worlds     int
	Workers    int
	Violations []*ReplayFile
	HarnessErr string
	WallS      float64
	Ran        bool
}

func raceBin() string { return os.Getenv("VERIF_BIN_RACE") }

func runRaceProc(dir string, w int, env []string, args []string, timeout time.Duration) (exit int, out string) {
	cmd := exec.Command(raceBin(), args...)
	logPath := filepath.Join(dir, fmt.Sprintf("raceworker.%d.log", w))
	lf, _ := os.Create(logPath)
	cmd.Stdout, cmd.Stderr = lf, lf
	cmd.Env = append(os.Environ(), env...)
	if err := cmd.Start(); err != nil {
		lf.Close()
		return 2, err.Error()
	}
	done := make(chan error, 1)
	go func() { done <- cmd.Wait() }()
	select {
	case <-done:
		exit = cmd.ProcessState.ExitCode()
	case <-time.After(timeout):
		cmd.Process.Kill()
		<-done
		exit = -1
	}
	lf.Close()
	b, _ := os.ReadFile(logPath)
	return exit, string(b)
}

// libraryFrames reports whether a race report involves code of the library.
func libraryFrames(report string) bool {
	// the race detector prints the module path with its dot escaped (mow%2ecli)
	return strings.Contains(report, "github.com/jawher/mow")
}

func raceStage(tier string, seed uint64, dir string, deadline time.Time) *raceStageResult {
	res := &raceStageResult{}
	if raceBin() == "" {
		return res
	}
	res.Ran = true
	t0 := time.Now()
	total, repeat := 400, 2
	if tier == "thorough" {
		total, repeat = 30_000, 2
	}
	W := envInt("VERIF_WORKERS", 16)
	if W > 16 {
		W = 16
	}
	// each race worker uses several cores itself
	W = (W + 3) / 4
	res.Workers = W
	var mu sync.Mutex
	var wg sync.WaitGroup
	for w := 0; w < W; w++ {
		wg.Add(1)
		go func(w int) {
			defer wg.Done()
			logBase := filepath.Join(dir, fmt.Sprintf("racereport.%d", w))
			env := []string{"GORACE=halt_on_error=1 exitcode=66 log_path=" + logBase, "GOMAXPROCS=16"}
			args := []string{"racerun", "--seed", strconv.FormatUint(seed, 10), "--from", strconv.Itoa(w), "--stride", strconv.Itoa(W), "--count", strconv.Itoa((total + W - 1) / W),
				"--repeat", strconv.Itoa(repeat), "--dir", dir, "--w", strconv.Itoa(w), "--deadline", strconv.FormatInt(deadline.Unix(), 10)}
			exit, out := runRaceProc(dir, w, env, args, time.Until(deadline)+2*time.Minute)
			mu.Lock()
			defer mu.Unlock()
			for _, line := range strings.Split(out, "\n") {
				if strings.HasPrefix(line, "RACEDONE worlds=") {
					var n, m int
					fmt.Sscanf(line, "RACEDONE worlds=%d mismatches=%d", &n, &m)
					res.Worlds += n
				}
			}
			idx := -1
			if b, err := os.ReadFile(filepath.Join(dir, fmt.Sprintf("raceprogress.%d", w))); err == nil {
				fmt.Sscanf(string(b), "%d", &idx)
			}
			switch exit {
			case 0:
			case 66:
				report := ""
				matches, _ := filepath.Glob(logBase + ".*")
				for _, m := range matches {
					b, _ := os.ReadFile(m)
					report += string(b)
				}
				if !libraryFrames(report) {
					res.HarnessErr = "the race detector reported a race with no library frame (a harness bug): " + clip(report, 1500)
					return
				}
				res.Violations = append(res.Violations, &ReplayFile{Property: "C20", Clause: "data-race", Detail: "the race detector reported a data race involving library code while independent applications ran in parallel goroutines",
					Seed: seed, Phase: PhaseCfg{Name: "race"}, PhaseIdx: 1, CaseIdx: idx, Crash: "race", CrashLog: clip(report, 3000)})
			case 3:
				for _, line := range strings.Split(out, "\n") {
					if strings.HasPrefix(line, "MISMATCH world=") {
						var widx int
						fmt.Sscanf(line, "MISMATCH world=%d", &widx)
						res.Violations = append(res.Violations, &ReplayFile{Property: "C20", Clause: "free-running-interference", Detail: "an application behaved differently when run in parallel with others (free-running goroutines): " + line,
							Seed: seed, Phase: PhaseCfg{Name: "race"}, PhaseIdx: 1, CaseIdx: widx, Crash: "race"})
						break
					}
				}
			default:
				res.HarnessErr = fmt.Sprintf("race worker %d ended with status %d: %s", w, exit, clip(out, 1500))
			}
		}(w)
	}
	wg.Wait()
	res.WallS = time.Since(t0).Seconds()
	return res
}

// reproducesRace re-runs one world of the race stage many times, up to 5 attempts.
func reproducesRace(rf *ReplayFile) (bool, string) {
	if raceBin() == "" {
		return false, "no race-detector binary (run through run.sh)"
	}
	dir, err := os.MkdirTemp(filepath.Join(verifHome(), ".work"), "racereplay-")
	if err != nil {
		return false, err.Error()
	}
	defer os.RemoveAll(dir)
	for a := 0; a < 5; a++ {
		logBase := filepath.Join(dir, fmt.Sprintf("report.%d", a))
		env := []string{"GORACE=halt_on_error=1 exitcode=66 log_path=" + logBase, "GOMAXPROCS=16"}
		args := []string{"racerun", "--seed", strconv.FormatUint(rf.Seed, 10), "--from", strconv.Itoa(rf.CaseIdx), "--count", "1", "--repeat", "400", "--dir", dir, "--w", "0"}
		exit, out := runRaceProc(dir, 0, env, args, 5*time.Minute)
		if exit == 66 {
			report := ""
			matches, _ := filepath.Glob(logBase + ".*")
			for _, m := range matches {
				b, _ := os.ReadFile(m)
				report += string(b)
			}
			if libraryFrames(report) {
				return true, fmt.Sprintf("the race detector reported the race again (attempt %d)", a+1)
			}
		}
		if exit == 3 && strings.Contains(out, "MISMATCH") {
			return true, fmt.Sprintf("the interference occurred again (attempt %d)", a+1)
		}
	}
	return false, "5 attempts of 400 repetitions each did not show it again"
}
