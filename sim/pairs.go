package main

// Scheduled pairs: two cases of a single-application property run as concurrent simulated
// processes under the cooperative scheduler (every switch drawn from the tape), then each is
// judged by the property's own oracle. State shared between applications inside the library
// (a package-level scratch object, cache or pending list — with or without a lock) shows up as
// an oracle failure of one of the two.

type Prepared struct {
	Proc   *Proc
	Body   func() error
	Finish func(st *Stats) *Violation // after the process ended: histories on the same object, then the verdict
}

type genericPair struct {
	A, B     Case
	Strategy int
	tape     *Tape
	// MapOrder: a value type of the pair yields inside the library's fill phase, whose order over the containers
	// is Go's map iteration order: where exactly the switch lands is then not decided by the tape alone, and a
	// replay of a violation may need several attempts (the clause is tagged, the replay step retries up to 20 times)
	MapOrder bool
}

func (g *genericPair) Describe() interface{} {
	return map[string]interface{}{"scheduled_pair": []interface{}{g.A.Describe(), g.B.Describe()}, "strategy": stratNames[g.Strategy]}
}

func genPair(t *Tape, one func() Case) *genericPair {
	a := one()
	b := one()
	return &genericPair{A: a, B: b, Strategy: t.Draw(numStrats), tape: t}
}

// execPair runs the pair. envOf/setEnv are nil for properties whose world has no environment;
// otherwise both cases adopt the merged environment (the world has one environment).
func execGenericPair(g *genericPair, st *Stats, prep func(c Case, id int) *Prepared, envOf func(c Case) EnvState, setEnv func(c Case, e EnvState)) *Violation {
	var env EnvState
	if envOf != nil {
		ea, eb := envOf(g.A), envOf(g.B)
		for k := 0; k < envPool; k++ {
			if ea[k] != nil {
				env[k] = ea[k]
			} else {
				env[k] = eb[k]
			}
		}
		setEnv(g.A, env)
		setEnv(g.B, env)
	}
	env.Apply()
	defer EnvState{}.Apply()
	pa, pb := prep(g.A, 0), prep(g.B, 1)
	s := RunScheduled(g.tape, g.Strategy, []*Proc{pa.Proc, pb.Proc}, []func() error{pa.Body, pb.Body})
	st.Add("fired.context_switches", int64(s.Switches))
	if s.Switches >= 2 {
		st.InSet("schedules_with_2plus_switches (hash of the grant sequence: process, site)", s.Hash())
	}
	st.Count("strategy." + stratNames[s.Strategy])
	st.Count("scheduled_pairs")
	if s.Uncontrolled {
		st.Count("reach.uncontrolled_lock_fallback")
	}
	if s.Deadlock {
		return &Violation{Clause: "concurrent-run-finishes", Detail: "two applications run together did not both finish", Observed: s.DescribeGrants(60)}
	}
	for _, pr := range []*Prepared{pa, pb} {
		if v := pr.Finish(st); v != nil {
			v.Detail = "(run together with another application under the scheduler) " + v.Detail
			if g.MapOrder {
				v.Clause += " (map-order)"
			}
			return v
		}
	}
	return nil
}

func pairPhase(quick, thorough int, tier string) PhaseCfg {
	n := quick
	if tier == "thorough" {
		n = thorough
	}
	return PhaseCfg{Name: "scheduled-pairs", Count: n, P: map[string]int{"pair": 1, "maxdepth": 4}}
}
