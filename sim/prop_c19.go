package main

import (
	"flag"
	"fmt"
	"strings"
)

// C19 — custom value types are driven through the documented protocol.
//
// World: the user-supplied flag.Value is a simulator-owned probe (one type per combination of
// the optional methods) that logs every call and fails Set on a tape-drawn call. The oracle
// reads the call history of the Run phase.

type c19Case struct {
	App      *AppDecl
	Decl     *Decl
	Second   *Decl
	Tokens   []string // the tokens bound to the probe, as Set must see them, in command-line order
	Tokens2  []string
	Argv     []string
	Env      EnvState
	EnvAfter *EnvState // when set: installed between the declarations and Run (the value must not hear of it)
	Shape    string
	Policy   int // index into policies
	Stream   StreamPlan
}

func (c *c19Case) Describe() interface{} {
	m := map[string]interface{}{"decl": c.Decl.Describe(), "spec": c.App.Root.Spec, "argv": shortArgv(c.Argv), "env": c.Env.Describe(), "bound_tokens": shortArgv(c.Tokens), "bound_tokens_len": len(c.Tokens), "policy": policyName(policies[c.Policy]), "stream": c.Stream.String()}
	if c.Second != nil {
		m["second_decl"] = c.Second.Describe()
		m["second_bound_tokens"] = c.Tokens2
	}
	return m
}

type c19Prop struct{}

func init() { register(c19Prop{}) }

func (c19Prop) ID() string { return "C19" }

func (c19Prop) Rule() string {
	return "case = a probe value type with one of the 8 subsets of {IsBoolFlag, Clear, IsDefault} (plus IsBoolFlag()==false variants), as option or argument, in template specs " +
		"([-p], [-p]..., -p..., [OPTIONS], [P], P, P..., [P...]) x environment list of 0..2 variables (unset / empty / one value / comma list) x 0..3 command-line tokens in every documented spelling " +
		"(bare flag, folded flags, =value, separate, attached) x Set failing on a drawn call (never / k-th call of the Run phase / during declaration), optionally with a second probe container. " +
		"The enumerated phase sweeps (method subset, IsBoolFlag result, opt/arg, shape, number of tokens, failing call); the seeded phase draws everything. " +
		"distinct = distinct (method subset, bool result, opt/arg, shape, tokens, env states, failing call); non-trivial = at least one command-line token or one environment variable."
}

func (c19Prop) Phases(tier string) []PhaseCfg {
	radix := []int{8, 2, 2, 4, 4, 4}
	n := 50_000
	if tier == "thorough" {
		n = 15_000_000
	}
	return []PhaseCfg{{Name: "structural-sweep", Radix: radix, Count: product(radix), P: map[string]int{"seeded_tail": 1}}, {Name: "seeded", Count: n}, pairPhase(4_000, 300_000, tier)}
}

func (c19Prop) Gen(t *Tape, ph *PhaseCfg) Case {
	if ph != nil && ph.P["pair"] == 1 {
		g := genPair(t, func() Case {
			c := c19Prop{}.genOneOpt(t, false)
			c.Decl.Probe.YieldInSet = true
			return c
		})
		g.MapOrder = true
		return g
	}
	return c19Prop{}.genOne(t)
}

func (c19Prop) genOne(t *Tape) *c19Case { return c19Prop{}.genOneOpt(t, true) }

// genOneOpt: with allowLong a case may, rarely, repeat the value thousands of times (a long command line).
func (c19Prop) genOneOpt(t *Tape, allowLong bool) *c19Case {
	methods := t.Draw(8)
	boolFalse := t.Draw(2) == 1
	isArg := t.Draw(2) == 1
	shapeSel := t.Draw(4)
	n := t.Draw(4)
	failSel := t.Draw(4)
	if allowLong && t.Draw(600) == 0 && shapeSel != 0 && !(isArg && shapeSel == 1) {
		n = []int{1030, 2100, 4200}[t.Draw(3)]
	}

	ps := &ProbeSpec{HasBool: methods&1 != 0, HasClear: methods&2 != 0, HasDefault: methods&4 != 0}
	ps.BoolResult = ps.HasBool && !boolFalse
	if methods == 2 && t.Draw(4) == 0 {
		ps.Unhashable = true // only Clear besides Set/String: the slice-typed variant
	}
	c := &c19Case{}
	d := &Decl{IsArg: isArg, Kind: KVar, Probe: ps}
	if isArg {
		d.Name = "P"
	} else {
		d.Name = "p probe"
	}
	c.Decl = d
	boolLike := ps.BoolResult && !isArg

	var spec string
	if isArg {
		spec = []string{"[P]", "P", "P...", "[P...]"}[shapeSel]
		switch spec {
		case "[P]":
			if n > 1 {
				n = 1
			}
		case "P":
			n = 1
		case "P...":
			if n == 0 {
				n = 1
			}
		}
	} else {
		spec = []string{"[-p]", "[-p]...", "-p...", "[OPTIONS]"}[shapeSel]
		switch spec {
		case "[-p]":
			if n > 1 {
				n = 1
			}
		case "-p...":
			if n == 0 {
				n = 1
			}
		}
	}
	c.Shape = spec
	if n > 0 && failSel > 0 && failSel <= n {
		ps.FailAt = failSel
		ps.ErrKind = t.Draw(len(probeErrors))
	}
	// environment
	nEnv := t.Draw(3)
	for i := 0; i < nEnv; i++ {
		d.EnvVars = append(d.EnvVars, i)
		switch t.Draw(5) {
		case 1:
			c.Env.Set(i, "")
		case 2:
			c.Env.Set(i, "e"+fmt.Sprint(i))
		case 3:
			c.Env.Set(i, "e1, e2 ,e3")
		case 4:
			c.Env.Set(i, []string{"  > ", "high\n", "\tx", " "}[t.Draw(4)]) // padded: a single-valued type gets it as it is
		}
	}
	if nEnv > 0 && t.Draw(6) == 0 {
		ps.FailDecl = 1 + t.Draw(2)
	}
	if nEnv == 0 && t.Draw(4) == 0 {
		d.Short, d.NoSBU = true, true
	} else if t.Draw(3) == 0 {
		d.HideValue = true // what the help shows of the value must not change how the value is driven
	}
	c.Policy = t.Draw(3)
	if t.Draw(4) == 0 {
		c.Stream = drawStream(t)
	}
	if allowLong && nEnv > 0 && (methods+shapeSel+n)%3 == 0 {
		// (a function of the case, not a draw) every listed variable gets a new value once the declarations are made
		late := c.Env
		for _, k := range d.EnvVars {
			late.Set(k, "late"+fmt.Sprint(k))
		}
		c.EnvAfter = &late
	}

	// command-line tokens
	argv := []string{"app"}
	valToks := []string{"v1", "v2", "val", "true", "false", "x=y", "a b", "-dash", " padded ", "7", "é", "1", "0", "t", "F", "TRUE", "False", "T", "f"}
	var pending string // folded bare flags not yet flushed
	flush := func() {
		if pending != "" {
			argv = append(argv, "-"+pending)
			pending = ""
		}
	}
	dash := false
	var posToks []string
	for i := 0; i < n; i++ {
		if isArg {
			tok := t.Pick(valToks)
			switch t.Draw(6) {
			case 0:
				tok = "--" // after the leading `--` a further `--` is an operand like any other
			case 1:
				if allowLong {
					tok = "" // an empty string is an operand like any other
				}
			}
			c.Tokens = append(c.Tokens, tok)
			posToks = append(posToks, tok)
			if strings.HasPrefix(tok, "-") {
				dash = true
			}
			continue
		}
		if boolLike {
			switch t.Draw(5) {
			case 0:
				flush()
				argv = append(argv, "-p")
				c.Tokens = append(c.Tokens, "true")
			case 1:
				flush()
				argv = append(argv, "--probe")
				c.Tokens = append(c.Tokens, "true")
			case 2:
				pending += "p"
				c.Tokens = append(c.Tokens, "true")
			default:
				flush()
				tok := t.Pick(valToks)
				argv = append(argv, []string{"-p=", "--probe="}[t.Draw(2)]+tok)
				c.Tokens = append(c.Tokens, tok)
			}
			continue
		}
		tok := t.Pick(valToks)
		c.Tokens = append(c.Tokens, tok)
		if strings.HasPrefix(tok, "-") {
			argv = append(argv, []string{"-p=", "--probe="}[t.Draw(2)]+tok)
			continue
		}
		switch t.Draw(5) {
		case 0:
			argv = append(argv, "-p="+tok)
		case 1:
			argv = append(argv, "--probe="+tok)
		case 2:
			argv = append(argv, "-p", tok)
		case 3:
			argv = append(argv, "--probe", tok)
		default:
			argv = append(argv, "-p"+tok)
		}
	}
	flush()
	// an optional second probe container with its own tokens
	decls := []*Decl{d}
	if t.Draw(3) == 0 {
		s := &Decl{Kind: KVar, Name: "q second", Probe: &ProbeSpec{HasClear: t.Draw(2) == 1}}
		c.Second = s
		k := t.Draw(3)
		if spec != "[OPTIONS]" {
			if isArg || t.Draw(2) == 0 {
				spec = "[-q]... " + spec
			} else {
				spec = spec + " [-q]..." // the first container's matcher then has to look past the occurrences of -q
			}
		}
		var qargs []string
		for i := 0; i < k; i++ {
			tok := "q" + fmt.Sprint(i)
			c.Tokens2 = append(c.Tokens2, tok)
			qargs = append(qargs, []string{"-q=" + tok, "--second=" + tok}[t.Draw(2)])
		}
		argv = append(append([]string{"app"}, qargs...), argv[1:]...)
		if t.Draw(2) == 1 {
			decls = []*Decl{s, d}
		} else {
			decls = append(decls, s)
		}
	}
	if isArg {
		if dash {
			argv = append(argv, "--")
		}
		argv = append(argv, posToks...)
	}
	c.Argv = argv
	root := &CmdDecl{Name: "app", Spec: spec, Decls: decls, Action: CB{Kind: CBReturn}}
	c.App = &AppDecl{Root: root, Policy: policies[c.Policy]}
	c.App.Finish()
	return c
}

func mutating(log []Call, runPhase bool) []Call {
	out := []Call{}
	for _, c := range log {
		if c.Run == runPhase && (c.Method == "Set" || c.Method == "Clear") {
			out = append(out, c)
		}
	}
	return out
}

func callStrings(cs []Call) []string {
	out := make([]string, len(cs))
	for i, c := range cs {
		out[i] = c.String()
	}
	return out
}

// expectedProtocol is the documented Run-phase protocol for n bound tokens.
func expectedProtocol(ps *ProbeSpec, toks []string) (calls []string, fails bool) {
	if len(toks) == 0 {
		return nil, false
	}
	if ps.HasClear {
		calls = append(calls, "Clear")
	}
	for i, tok := range toks {
		c := Call{Method: "Set", Arg: tok, Run: true}
		if ps.FailAt > 0 && i+1 == ps.FailAt {
			c.Failed = true
			calls = append(calls, c.String())
			return calls, true
		}
		calls = append(calls, c.String())
	}
	return calls, false
}

func (c19Prop) Exec(cc Case, st *Stats) *Violation {
	if g, ok := cc.(*genericPair); ok {
		return execGenericPair(g, st, func(c Case, id int) *Prepared { return c19Prepare(c.(*c19Case), id) },
			func(c Case) EnvState { return c.(*c19Case).Env }, func(c Case, e EnvState) { c.(*c19Case).Env = e })
	}
	c := cc.(*c19Case)
	c.Env.Apply()
	pr := c19Prepare(c, 0)
	RunProc(pr.Proc, pr.Body)
	EnvState{}.Apply()
	return pr.Finish(st)
}

func c19Prepare(c *c19Case, id int) *Prepared {
	p := NewProc(id)
	p.SetInputSize(len(c.Argv))
	p.Stream = c.Stream
	var inst *Instance
	body := func() error {
		inst = Build(c.App, p)
		if c.EnvAfter != nil {
			c.EnvAfter.Apply() // too late: the declarations have read the environment
		}
		return inst.Cli.Run(c.Argv)
	}
	return &Prepared{Proc: p, Body: body, Finish: func(st *Stats) *Violation {
		if c.EnvAfter != nil {
			st.Count("fired.env_set_between_declaration_and_run")
		}
		if v := c19Verdict(c, p, inst, st); v != nil {
			return v
		}
		return c19Rerun(c, inst, st)
	}}
}

// c19Rerun: history on one application object. A second invocation with the same command line drives the value
// through the same protocol once more: Clear once iff present, Set of exactly the bound tokens - nothing else
// (in particular nothing from the environment, which was consulted at declaration time).
func c19Rerun(c *c19Case, inst *Instance, st *Stats) *Violation {
	ps := c.Decl.Probe
	if inst == nil || ps.FailAt > 0 || c.Decl.IsArg && false {
		return nil
	}
	key := "r/" + c.Decl.Key()
	before := len(inst.ProbeLog(key))
	p2 := NewProc(20)
	p2.SetInputSize(len(c.Argv))
	p2.Stream = c.Stream
	inst.Proc = p2
	RunProc(p2, func() error { return inst.Cli.Run(c.Argv) })
	st.Count("reach.same_app_run_again")
	log := inst.ProbeLog(key)
	if len(log) < before {
		return nil
	}
	got := callStrings(mutating(log[before:], true))
	exp, _ := expectedProtocol(ps, c.Tokens)
	if !equalStrings(got, exp) {
		return &Violation{Clause: "rerun-protocol", Detail: "second invocation of the same application object: the value was not driven through the documented protocol again", Expected: exp,
			Observed: map[string]interface{}{"run_phase_mutating_calls_of_the_second_invocation": got, "end": describeEnd(p2)}}
	}
	return nil
}

func c19Verdict(c *c19Case, p *Proc, inst *Instance, st *Stats) *Violation {
	st.Evals++
	ps := c.Decl.Probe
	st.Count(fmt.Sprintf("methods.bool=%v.clear=%v.default=%v", ps.HasBool, ps.HasClear, ps.HasDefault))
	st.Count(fmt.Sprintf("tokens=%d", len(c.Tokens)))
	if ps.FailAt > 0 {
		st.Count("fired.set_error_run_phase")
	}
	if ps.FailDecl > 0 {
		st.Count("fired.set_error_declaration_phase_armed")
	}
	if ps.HasBool && !ps.BoolResult {
		st.Count("reach.isboolflag_false")
	}
	if len(c.Tokens) > 1000 {
		st.Count("reach.long_command_line_1000s_of_tokens")
	}
	if len(c.Tokens) > 0 || len(c.Decl.EnvVars) > 0 {
		st.Nontrivial(fnv64(fmt.Sprintf("%+v %v %s %q %v %q", *ps, c.Decl.IsArg, c.Shape, c.Tokens, c.Env.Describe(), c.Tokens2)))
	}
	if len(c.Tokens) > 1 {
		st.Sample(c.Describe())
	}
	if p.End == EndBudget {
		return &Violation{Clause: "terminates", Detail: "the run exceeded the " + p.Budget + " budget", Observed: describeEnd(p)}
	}
	if inst == nil {
		return &Violation{Clause: "build", Detail: "declaring the probe value panicked", Observed: describeEnd(p)}
	}
	key := "r/" + c.Decl.Key()
	log := inst.ProbeLog(key)
	if !ps.HasClear && !ps.Unhashable {
		// declaration phase of a single-valued type: whatever it is offered from the environment is the exact content of
		// one of the listed variables (a list type gets comma-separated, trimmed items: not checked here)
		for _, call := range log {
			if call.Run || call.Method != "Set" {
				continue
			}
			exact := false
			for _, v := range c.Decl.EnvVars {
				if s, set := c.Env.Get(v); set && s == call.Arg {
					exact = true
				}
			}
			if !exact {
				return &Violation{Clause: "env-token-exact", Detail: fmt.Sprintf("at declaration the single-valued type received Set(%q), which is not the content of any listed environment variable", call.Arg),
					Expected: c.Env.Describe(), Observed: callStrings(log)}
			}
		}
	}
	got := callStrings(mutating(log, true))
	exp, fails := expectedProtocol(ps, c.Tokens)
	ranAction := len(p.Observed()) == 1 && p.Observed()[0] == "ACT:r"
	observed := map[string]interface{}{"run_phase_mutating_calls": got, "full_log": callStrings(log), "end": describeEnd(p), "action_ran": ranAction}
	if !equalStrings(got, exp) {
		return &Violation{Clause: "protocol", Detail: "the Run-phase call history of the value differs from the documented protocol (Clear once iff present, then Set of exactly the bound tokens in order)", Expected: exp, Observed: observed}
	}
	if fails {
		if ranAction {
			return &Violation{Clause: "set-error-runs-action", Detail: "Set returned an error but the Action ran", Expected: "usage error", Observed: observed}
		}
		// a usage error ends the way the error policy says
		ok := false
		switch policies[c.Policy] {
		case flag.ContinueOnError:
			ok = p.End == EndReturned && p.Err != nil
		case flag.ExitOnError:
			ok = p.End == EndExited && p.ExitCode == 2
		case flag.PanicOnError:
			_, isErr := p.PanicVal.(error)
			ok = p.End == EndPanicked && isErr
		}
		if !ok {
			return &Violation{Clause: "set-error-usage-error", Detail: "Set returned an error: the invocation must end as a usage error under " + policyName(policies[c.Policy]), Expected: "usage error", Observed: observed}
		}
		st.Count("reach.set_error_became_usage_error")
	} else {
		if p.End != EndReturned || p.Err != nil || !ranAction {
			return &Violation{Clause: "accepted", Detail: "every Set succeeded on a command line valid for the spec: the invocation must be accepted", Expected: "accepted", Observed: observed}
		}
	}
	if c.Second != nil {
		log2 := inst.ProbeLog("r/" + c.Second.Key())
		got2 := callStrings(mutating(log2, true))
		exp2, _ := expectedProtocol(c.Second.Probe, c.Tokens2)
		observed["second_run_phase_mutating_calls"] = got2
		if fails {
			// the first container failed: whether the second one was filled before or after is not specified
			// (containers are filled in map order); its history must be a prefix of its own protocol
			if len(got2) > len(exp2) || !equalStrings(got2, exp2[:len(got2)]) {
				return &Violation{Clause: "protocol-second", Detail: "the second value received calls that are not a prefix of its own protocol", Expected: exp2, Observed: observed}
			}
		} else if !equalStrings(got2, exp2) {
			return &Violation{Clause: "protocol-second", Detail: "the second value did not receive exactly its own tokens", Expected: exp2, Observed: observed}
		}
	}
	return nil
}
