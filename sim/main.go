package main

import (
	"encoding/json"
	"fmt"
	"os"
	"path/filepath"
	"strconv"
	"strings"
)

// Exit codes: 0 the property held on everything explored (KNOWN-FINDING lines allowed);
// 1 with a VIOLATION line; 2 build / harness / watchdog trouble; 3 (solo only) violation found.

func verifHome() string {
	if h := os.Getenv("VERIF_HOME"); h != "" {
		return h
	}
	return "/verif"
}

// outHome is where evidence and replay files go: /verif, or VERIF_OUT for runs against scratch copies
// (sensitivity runs must never overwrite the evidence of the real tree).
func outHome() string {
	if h := os.Getenv("VERIF_OUT"); h != "" {
		return h
	}
	return verifHome()
}

func envInt(name string, def int) int {
	if s := os.Getenv(name); s != "" {
		if v, err := strconv.Atoi(s); err == nil {
			return v
		}
	}
	return def
}

func envSeed() uint64 {
	if s := os.Getenv("VERIF_SEED"); s != "" {
		if v, err := strconv.ParseUint(s, 10, 64); err == nil {
			return v
		}
		if v, err := strconv.ParseInt(s, 10, 64); err == nil {
			return uint64(v)
		}
	}
	return 1
}

type flags map[string]string

func parseFlags(args []string) (flags, []string) {
	f := flags{}
	var rest []string
	for i := 0; i < len(args); i++ {
		a := args[i]
		if strings.HasPrefix(a, "--") {
			k := a[2:]
			if eq := strings.IndexByte(k, '='); eq >= 0 {
				f[k[:eq]] = k[eq+1:]
			} else if i+1 < len(args) && !strings.HasPrefix(args[i+1], "--") {
				f[k] = args[i+1]
				i++
			} else {
				f[k] = "true"
			}
		} else {
			rest = append(rest, a)
		}
	}
	return f, rest
}

func (f flags) int(k string, def int) int {
	if s, ok := f[k]; ok {
		v, err := strconv.Atoi(s)
		if err == nil {
			return v
		}
	}
	return def
}

func (f flags) str(k, def string) string {
	if s, ok := f[k]; ok {
		return s
	}
	return def
}

func usage() {
	fmt.Fprintf(os.Stderr, `simcheck — deterministic simulation checks for jawher/mow.cli
  simcheck check <ID> [--tier quick|thorough]     run the check of a property (env: VERIF_SEED, VERIF_TIER, VERIF_WORKERS, VERIF_WALL_S)
  simcheck replay <file>                          re-execute a replay file in a fresh process
  simcheck selftest determinism|shrink            self-tests of the machinery
  simcheck list                                   claimed properties
  (internal) simcheck worker|solo ...
properties: %s
`, strings.Join(propertyIDs(), " "))
}

func main() {
	if len(os.Args) < 2 {
		usage()
		os.Exit(2)
	}
	f, rest := parseFlags(os.Args[2:])
	switch os.Args[1] {
	case "list":
		fmt.Println(strings.Join(propertyIDs(), "\n"))
	case "check":
		if len(rest) != 1 || properties[rest[0]] == nil {
			usage()
			os.Exit(2)
		}
		tier := f.str("tier", os.Getenv("VERIF_TIER"))
		if tier != "thorough" {
			tier = "quick"
		}
		os.Exit(superviseCheck(properties[rest[0]], tier, envSeed()))
	case "worker":
		os.Exit(workerMain(f, rest))
	case "racerun":
		os.Exit(raceRunMain(f))
	case "solo":
		os.Exit(soloMain(f, rest))
	case "replay":
		if len(rest) != 1 {
			usage()
			os.Exit(2)
		}
		os.Exit(replayMain(rest[0]))
	case "selftest":
		if len(rest) < 1 {
			usage()
			os.Exit(2)
		}
		os.Exit(selftestMain(rest[0], f, rest[1:]))
	default:
		usage()
		os.Exit(2)
	}
}

// ---------------------------------------------------------------------------
// Known findings

type KnownEntry struct {
	ID       string `json:"id"`
	Property string `json:"property"`
	Status   string `json:"status"` // "known" or "fixed"
	Commit   string `json:"commit,omitempty"`
	What     string `json:"what"`
}

type KnownFile struct {
	Findings []KnownEntry `json:"findings"`
}

var knownCache *KnownFile

func loadKnown() *KnownFile {
	if knownCache != nil {
		return knownCache
	}
	kf := &KnownFile{}
	b, err := os.ReadFile(filepath.Join(verifHome(), "known_findings.json"))
	if err == nil {
		if err := json.Unmarshal(b, kf); err != nil {
			fmt.Fprintf(os.Stderr, "HARNESS-ERROR known_findings.json does not parse: %v\n", err)
			os.Exit(2)
		}
	}
	knownCache = kf
	return kf
}

// isKnown reports whether the finding id is listed as a known (unrepaired) finding of the property.
func isKnown(prop, id string) *KnownEntry {
	if id == "" {
		return nil
	}
	for i, e := range loadKnown().Findings {
		if e.ID == id && e.Property == prop && e.Status == "known" {
			return &loadKnown().Findings[i]
		}
	}
	return nil
}
