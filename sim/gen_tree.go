package main

import (
	"flag"
	"fmt"
	"strconv"
	"strings"
)

// Command trees whose levels use spec templates with a language known by construction,
// so that "this level's slice of the command line is valid" never needs a second parser.

type levelTpl struct {
	idx   int
	spec  string
	decls func() []*Decl
	valid func(t *Tape) []string // a valid token list for this level
}

func valTok(t *Tape) string { return "x" + strconv.Itoa(t.Draw(10)) }

var levelTpls = []levelTpl{
	{0, "", func() []*Decl { return nil }, func(t *Tape) []string { return nil }},
	{1, "[-v]", func() []*Decl { return []*Decl{{Kind: KBool, Name: "v verbose"}} },
		func(t *Tape) []string {
			return [][]string{nil, {"-v"}, {"--verbose"}, {"-v=true"}}[t.Draw(4)]
		}},
	{2, "X", func() []*Decl { return []*Decl{{IsArg: true, Kind: KString, Name: "X"}} },
		func(t *Tape) []string { return []string{valTok(t)} }},
	{3, "[-n=<num>] X", func() []*Decl {
		return []*Decl{{Kind: KInt, Name: "n num", Def: "1"}, {IsArg: true, Kind: KString, Name: "X"}}
	}, func(t *Tape) []string {
		n := strconv.Itoa(t.Draw(100))
		x := valTok(t)
		return [][]string{{x}, {"-n", n, x}, {"--num=" + n, x}, {"-n" + n, x}, {"--num", n, x}}[t.Draw(5)]
	}},
	{4, "X...", func() []*Decl { return []*Decl{{IsArg: true, Kind: KStrings, Name: "X"}} },
		func(t *Tape) []string {
			n := 1 + t.Draw(3)
			r := []string{}
			for i := 0; i < n; i++ {
				r = append(r, valTok(t))
			}
			return r
		}},
	{5, "", func() []*Decl {
		return []*Decl{{Kind: KBool, Name: "v verbose"}, {Kind: KString, Name: "s str", Def: "d"}}
	}, func(t *Tape) []string {
		v := [][]string{nil, {"-v"}, {"--verbose"}}[t.Draw(3)]
		s := [][]string{nil, {"-s", "w"}, {"--str=w"}, {"-sw"}}[t.Draw(4)]
		if t.Draw(2) == 1 {
			return append(append([]string{}, s...), v...)
		}
		return append(append([]string{}, v...), s...)
	}},
	{6, "[-p=<v>]...", func() []*Decl {
		return []*Decl{{Kind: KVar, Name: "p probe", Probe: &ProbeSpec{HasClear: true}}}
	}, func(t *Tape) []string {
		n := t.Draw(4)
		r := []string{}
		for i := 0; i < n; i++ {
			if t.Draw(2) == 0 {
				r = append(r, "-p="+valTok(t))
			} else {
				r = append(r, "--probe", valTok(t))
			}
		}
		return r
	}},
	{7, "[--host=<h>] X", func() []*Decl {
		// the command declares its own -h: on the command line a bare -h is still the library's help request
		return []*Decl{{Kind: KString, Name: "h host", Def: "localhost"}, {IsArg: true, Kind: KString, Name: "X"}}
	}, func(t *Tape) []string {
		x := valTok(t)
		return [][]string{{x}, {"--host=example.org", x}, {"--host", "example.org", x}}[t.Draw(3)]
	}},
	{8, "-e...", func() []*Decl {
		// a mandatory list option that the environment may satisfy - when its variable holds a valid list
		return []*Decl{{Kind: KInts, Name: "e each", EnvVars: []int{0}}}
	}, func(t *Tape) []string {
		return [][]string{{"-e=5"}, {"--each", "7", "-e3"}, {"-e", "1", "-e", "2"}}[t.Draw(3)]
	}},
	{9, "", func() []*Decl {
		// implicit [OPTIONS]; -v may also come from the environment (the case decides whether the variable is set)
		return []*Decl{{Kind: KBool, Name: "v verbose", EnvVars: []int{1}}, {Kind: KBool, Name: "x"}}
	}, func(t *Tape) []string {
		return [][]string{nil, {"-vv"}, {"-vx", "-v"}, {"-xv", "-v"}, {"-v", "-v"}, {"-vxv"}, {"-x"}}[t.Draw(7)]
	}},
	{10, "[X] Y", func() []*Decl {
		return []*Decl{{IsArg: true, Kind: KString, Name: "X"}, {IsArg: true, Kind: KString, Name: "Y"}}
	}, func(t *Tape) []string {
		if t.Draw(2) == 0 {
			return []string{valTok(t)}
		}
		return []string{valTok(t), valTok(t)}
	}},
	{11, "[-n=<num>]...", func() []*Decl {
		// a scalar option under a repetition: every occurrence is converted, the last one stays (wave 13).
		// Not part of the default draw (numDefaultTpls): only generators that list it in TreeOpts.Templates use it.
		return []*Decl{{Kind: KInt, Name: "n num", Def: "1"}}
	}, func(t *Tape) []string {
		r := []string{}
		for i, n := 0, t.Draw(4); i < n; i++ {
			v := strconv.Itoa(t.Draw(100))
			r = append(r, [][]string{{"-n", v}, {"--num=" + v}, {"-n" + v}, {"--num", v}, {"-n=" + v}}[t.Draw(5)]...)
		}
		return r
	}},
}

// numDefaultTpls: the templates a generator draws from when it names none (template 11 was added later and is
// opt-in, so that the tapes of the other properties read as before)
const numDefaultTpls = 11

var allTplsAndRepeatedScalar = []int{0, 1, 2, 3, 4, 5, 6, 7, 8, 9, 10, 11, 11}

type TreeOpts struct {
	MaxDepth  int
	Depth     int  // >=0: fixed depth
	Minimal   bool // no siblings, no templates, single alias (enumerated phases)
	CB        func(t *Tape, level int, role string, onPath bool) CB
	Templates []int // allowed template indices (nil = all)
	Fancy     bool  // unusual but legal names (%, dots, non-ASCII) and per-command error policies set by initializers
	SubBare   bool  // sub-commands declare nothing (template 0): such a tree can be run again on the same object
	Policy    int   // -1 = draw
}

type TreeCase struct {
	App     *AppDecl
	Path    []*CmdDecl
	Tokens  [][]string // per level of the path: that level's own tokens
	Aliases []string   // Aliases[i] = the name used on the command line for level i (i>=1)
	Tpl     []int
}

func (tc *TreeCase) Argv() []string {
	argv := []string{"app"}
	for i := range tc.Path {
		if i > 0 {
			argv = append(argv, tc.Aliases[i])
		}
		argv = append(argv, tc.Tokens[i]...)
	}
	return argv
}

func (tc *TreeCase) Depth() int { return len(tc.Path) - 1 }

// cloneTokens returns a copy that shares the application but owns its command line.
func (tc *TreeCase) cloneTokens() *TreeCase {
	cp := *tc
	cp.Tokens = make([][]string, len(tc.Tokens))
	for i, toks := range tc.Tokens {
		cp.Tokens[i] = append([]string(nil), toks...)
	}
	return &cp
}

var policies = []flag.ErrorHandling{flag.ContinueOnError, flag.ExitOnError, flag.PanicOnError}

func recordingCB(t *Tape, level int, role string, onPath bool) CB { return CB{Kind: CBReturn} }

// genTree draws a command tree and a path through it.
func genTree(t *Tape, o TreeOpts) *TreeCase {
	tc := &TreeCase{}
	app := &AppDecl{}
	if o.Policy >= 0 {
		app.Policy = policies[o.Policy]
	} else {
		app.Policy = policies[t.Draw(3)]
	}
	depth := o.Depth
	if depth < 0 {
		depth = t.Draw(o.MaxDepth + 1)
	}
	cb := o.CB
	if cb == nil {
		cb = recordingCB
	}
	var parent *CmdDecl
	for lvl := 0; lvl <= depth; lvl++ {
		c := &CmdDecl{}
		alias := ""
		suffix := ""
		if o.Fancy && t.Draw(4) == 0 {
			suffix = []string{"%d", "%s", "%", ".x", "-y", "é", "%20x", "%!"}[t.Draw(8)]
		}
		if lvl == 0 {
			c.Name = "app" + suffix
		} else {
			if o.Fancy && t.Draw(6) == 0 {
				pol := policies[t.Draw(3)]
				c.Policy = &pol
			}
			c.Name = "c" + strconv.Itoa(lvl) + suffix
			if o.Fancy && t.Draw(8) == 0 {
				// a sub-command may be called like one of its ancestors (tool repo repo): names only matter among siblings
				c.Name = strings.Fields(tc.Path[t.Draw(lvl)].Name)[0]
			}
			alias = c.Name
			if !o.Minimal {
				na := t.Draw(3)
				for a := 0; a < na; a++ {
					sep := " "
					if o.Fancy && t.Draw(4) == 0 {
						sep = []string{"  ", "\t", " \t "}[t.Draw(3)] // any white space separates the names
					}
					c.Name += fmt.Sprintf("%sk%d_%d", sep, lvl, a)
				}
				if na > 0 {
					alias = fmt.Sprintf("k%d_%d", lvl, t.Draw(na))
					if t.Draw(3) == 0 {
						alias = strings.Fields(c.Name)[0]
					}
				}
			}
		}
		c.Desc = "command at level " + strconv.Itoa(lvl)
		if o.Fancy && lvl > 0 && t.Draw(6) == 0 {
			c.Hidden = true // hidden from the help of its parent, otherwise a command like any other
		}
		if o.Fancy && t.Draw(8) == 0 {
			pol := policies[t.Draw(3)]
			c.PolicyLate = &pol // the host program assigns ErrorHandling after having declared the sub-commands
		}
		tpl := 0
		var toks []string
		if !o.Minimal {
			if o.SubBare && lvl > 0 {
				t.Draw(1)
				tpl = 0
			} else if o.Templates != nil {
				tpl = o.Templates[t.Draw(len(o.Templates))]
			} else {
				tpl = t.Draw(numDefaultTpls)
			}
			c.Spec = levelTpls[tpl].spec
			c.Decls = levelTpls[tpl].decls()
			toks = levelTpls[tpl].valid(t)
			if t.Draw(3) == 0 {
				c.LongDesc = "long description of level " + strconv.Itoa(lvl)
				if o.Fancy && t.Draw(3) == 0 {
					// as written in an indented raw string: indented lines, a blank line holding fewer blanks than
					// the indentation, a closing quote on a line of its own
					c.LongDesc = []string{"\n    " + c.LongDesc + "\n \n    second paragraph\n  ", "\t" + c.LongDesc + "\n\n\tmore\n", "  " + c.LongDesc + "\n \n  more"}[t.Draw(3)]
				}
			}
			if o.Fancy && t.Draw(6) == 0 {
				// an EnvVar string of white space only names no variable (arguments and options alike)
				for _, d := range c.Decls {
					if len(d.EnvVars) == 0 && t.Draw(2) == 0 {
						d.BlankEnv = []string{" ", "\t ", "  "}[t.Draw(3)]
					}
				}
			}
		}
		c.Before = cb(t, lvl, "before", true)
		c.After = cb(t, lvl, "after", true)
		c.Action = cb(t, lvl, "action", lvl == depth)
		if lvl < depth && c.Action.Kind != CBAbsent {
			// an ancestor's Action must never fire: it is a plain recording closure
			c.Action = CB{Kind: CBReturn}
		}
		tc.Path = append(tc.Path, c)
		tc.Tokens = append(tc.Tokens, toks)
		tc.Aliases = append(tc.Aliases, alias)
		tc.Tpl = append(tc.Tpl, tpl)
		if parent == nil {
			app.Root = c
		} else {
			// siblings around the addressed child
			nsib := 0
			if !o.Minimal {
				nsib = t.Draw(3)
			}
			pos := 0
			if nsib > 0 {
				pos = t.Draw(nsib + 1)
			}
			for s := 0; s <= nsib; s++ {
				if s == pos {
					parent.Subs = append(parent.Subs, c)
					continue
				}
				sibName := fmt.Sprintf("s%d_%d", lvl, s)
				if o.Fancy && s > pos && t.Draw(4) == 0 {
					// a later sibling whose name is also an alias of the addressed command: the first declared wins
					names := strings.Fields(c.Name)
					sibName = names[len(names)-1] + " " + sibName
				}
				sib := &CmdDecl{Name: sibName, Desc: "sibling",
					Before: CB{Kind: CBReturn}, Action: CB{Kind: CBReturn}, After: CB{Kind: CBReturn}}
				if t.Draw(4) == 0 {
					sib.Hidden = true
				}
				parent.Subs = append(parent.Subs, sib)
			}
		}
		parent = c
	}
	// children below the addressed command (never addressed)
	if !o.Minimal && t.Draw(3) == 0 {
		n := 1 + t.Draw(2)
		for s := 0; s < n; s++ {
			parent.Subs = append(parent.Subs, &CmdDecl{Name: fmt.Sprintf("below%d", s), Desc: "child",
				Before: CB{Kind: CBReturn}, Action: CB{Kind: CBReturn}, After: CB{Kind: CBReturn}})
		}
	}
	app.Finish()
	tc.App = app
	return tc
}

// effectivePolicy is the error policy of the command at the given level of the path when the
// application was created with rootPolicy: a command inherits its parent's policy at the moment
// it is declared, and its own initializer may set another one.
func effectivePolicy(tc *TreeCase, level int, rootPolicy flag.ErrorHandling) flag.ErrorHandling {
	inherited := rootPolicy
	for i := 0; i < len(tc.Path); i++ {
		own := inherited
		if i > 0 && tc.Path[i].Policy != nil {
			own = *tc.Path[i].Policy // set by the command's initializer before it declares its sub-commands
		}
		forChildren := own
		if tc.Path[i].PolicyLate != nil {
			own = *tc.Path[i].PolicyLate // assigned after the sub-commands were declared: they keep what they copied
		}
		if i == level {
			return own
		}
		inherited = forChildren
	}
	return inherited
}
