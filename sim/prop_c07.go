package main

import (
	"flag"
	"fmt"
	"os"
	"strings"

	cli "github.com/jawher/mow.cli"
)

// C07 — rejected invocations run nothing and follow the configured error policy.
// C14 — help and version requests short-circuit everything else.
//
// Both ride on the same world: a command tree whose every level has recording callbacks,
// the process-exit seam, the panic/return observation of the simulated process, and a
// stream with a fault plan. Every case is executed under all three error policies.

type rejectCause int

const (
	rcNone rejectCause = iota
	rcMissingPositional
	rcSurplusPositional
	rcUndeclaredOption
	rcBadInt
	rcBadBool
	rcSetError
	rcVersionNotFirst
	rcMandatoryLeftToBadEnv
	rcMandatoryEnvSetTooLate
	numRejectCauses
)

var rejectCauseNames = []string{"none", "missing-positional", "surplus-positional", "undeclared-option", "bad-int", "bad-bool", "injected-set-error", "version-flag-not-in-first-position", "mandatory-option-left-to-an-invalid-environment-value", "mandatory-root-option-whose-variable-is-set-only-after-its-declaration"}

func hasTpl(tpl int, xs ...int) bool {
	for _, x := range xs {
		if x == tpl {
			return true
		}
	}
	return false
}

// applyReject makes the level's tokens invalid by the given cause; ok=false when the cause
// does not apply to the level's template.
func applyReject(t *Tape, tpl int, c *CmdDecl, toks []string, cause rejectCause) ([]string, bool) {
	out := append([]string(nil), toks...)
	insert := func(tok ...string) {
		pos := t.Draw(len(out) + 1)
		// never split an option from its separate value
		for pos > 0 && pos < len(out) && (out[pos-1] == "-n" || out[pos-1] == "--num" || out[pos-1] == "-s" || out[pos-1] == "--probe" || out[pos-1] == "--host") {
			pos--
		}
		out = append(out[:pos], append(append([]string{}, tok...), out[pos:]...)...)
	}
	switch cause {
	case rcMissingPositional:
		if !hasTpl(tpl, 2, 3, 4, 7, 10) {
			return nil, false
		}
		kept := []string{}
		for i := 0; i < len(out); i++ {
			if strings.HasPrefix(out[i], "-") {
				kept = append(kept, out[i])
				if out[i] == "-n" || out[i] == "--num" || out[i] == "--host" {
					kept = append(kept, out[i+1])
					i++
				}
			}
		}
		return kept, true
	case rcSurplusPositional:
		if !hasTpl(tpl, 0, 1, 2, 3, 5, 6, 7, 9) {
			return nil, false
		}
		if k := t.Draw(6); k == 5 {
			// after the first `--` a further `--` is a positional like any other: one too many, also in last position
			if n := len(out); hasTpl(tpl, 2, 3, 7) && n > 0 {
				out = append(out[:n-1], "--", out[n-1], "--") // the level's positional is its last token
			} else {
				out = append(out, "--", "--")
			}
		} else {
			out = append(out, []string{"y0", "y1", "y2", "", " "}[k])
		}
		return out, true
	case rcUndeclaredOption:
		insert([]string{"-z", "--zzz", "-z=1", "--zzz=1", "-q", "-5", "-2.5", "-1e3", "-inf", "-0"}[t.Draw(10)])
		return out, true
	case rcBadInt:
		if tpl != 3 && tpl != 11 {
			return nil, false
		}
		bad := []string{"abc", "1.5", "0x10", "9223372036854775808", "1_0", "٣", "+", "-"}[t.Draw(8)]
		form := t.Draw(4)
		if bad == "-" && form >= 2 {
			form -= 2 // a value starting with a dash is only a value in an attached spelling
		}
		insert([][]string{{"-n=" + bad}, {"--num=" + bad}, {"-n", bad}, {"--num", bad}}[form]...)
		if tpl == 11 && t.Draw(3) != 0 {
			// the occurrence that does not convert is not the last one: a later, valid occurrence does not heal it
			out = append(out, [][]string{{"-n", "5"}, {"--num=6"}, {"-n7"}}[t.Draw(3)]...)
		}
		return out, true
	case rcBadBool:
		if !hasTpl(tpl, 1, 5, 9) {
			return nil, false
		}
		bad := []string{"maybe", "yes", "2", "tru"}[t.Draw(4)]
		insert([]string{"-v=" + bad, "--verbose=" + bad}[t.Draw(2)])
		return out, true
	case rcVersionNotFirst:
		// the version flag is only a version request in first position; anywhere else it is an option like any
		// other, which these specs do not list (the caller declares the version on the application)
		switch {
		case c.Tag != "r":
			return nil, false
		case tpl == 1:
			return []string{[]string{"-v", "--verbose"}[t.Draw(2)], []string{"-V", "--version"}[t.Draw(2)]}, true
		case tpl == 3:
			return []string{"--num=5", []string{"-V", "--version"}[t.Draw(2)], "x1"}, true
		}
		return nil, false
	case rcMandatoryLeftToBadEnv:
		// (the caller installs the invalid environment value)
		if tpl != 8 {
			return nil, false
		}
		return nil, true
	case rcMandatoryEnvSetTooLate:
		// (the caller sets the variable between the declarations and Run: a root option read it when it was declared)
		if tpl != 8 || c.Tag != "r" {
			return nil, false
		}
		return nil, true
	case rcSetError:
		if tpl != 6 {
			return nil, false
		}
		n := 0
		for _, tok := range out {
			if strings.HasPrefix(tok, "-p=") || tok == "--probe" {
				n++
			}
		}
		if n == 0 {
			out = append(out, "-p=x1")
			n = 1
		}
		c.Decls[0].Probe.FailAt = 1 + t.Draw(n)
		c.Decls[0].Probe.ErrKind = t.Draw(len(probeErrors))
		return out, true
	}
	return nil, false
}

var ambientVars = []string{"COLUMNS", "LINES", "TERM", "NO_COLOR", "LANG", "LC_ALL"}

// drawAmbient: what the terminal and the locale look like is ambient state too; the outcome must not depend on it.
func drawAmbient(t *Tape) map[string]string {
	if t.Draw(4) != 0 {
		return nil
	}
	m := map[string]string{}
	for _, v := range ambientVars {
		if t.Draw(2) == 0 {
			m[v] = []string{"20", "1", "0", "-3", "abc", "100000", "dumb", "", "C", "fr_FR.UTF-8"}[t.Draw(10)]
		}
	}
	return m
}

func applyAmbient(m map[string]string) func() {
	saved := map[string]*string{}
	for _, v := range ambientVars {
		if old, ok := os.LookupEnv(v); ok {
			o := old
			saved[v] = &o
		} else {
			saved[v] = nil
		}
		if val, ok := m[v]; ok {
			os.Setenv(v, val)
		} else {
			os.Unsetenv(v)
		}
	}
	return func() {
		for v, old := range saved {
			if old == nil {
				os.Unsetenv(v)
			} else {
				os.Setenv(v, *old)
			}
		}
	}
}

func caseEnv(cc Case) EnvState {
	switch c := cc.(type) {
	case *c07Case:
		return c.Env
	case *pairCase:
		e := c.A.Env
		for k := range e {
			if e[k] == nil {
				e[k] = c.B.Env[k]
			}
		}
		return e
	case *sessionCase:
		var e EnvState
		for _, inv := range c.Invocations {
			for k := range e {
				if e[k] == nil {
					e[k] = inv.Env[k]
				}
			}
		}
		return e
	}
	return EnvState{}
}

func caseAmbient(cc Case) map[string]string {
	switch c := cc.(type) {
	case *c07Case:
		return c.Ambient
	case *pairCase:
		return c.A.Ambient
	case *sessionCase:
		return c.Invocations[0].Ambient
	}
	return nil
}

func drawStream(t *Tape) StreamPlan {
	switch t.Draw(8) {
	case 0:
		return StreamPlan{Kind: StreamClosed}
	case 1:
		return StreamPlan{Kind: StreamFailAfter, N: t.Draw(120)}
	case 2:
		return StreamPlan{Kind: StreamShort, N: 1 + t.Draw(16)}
	case 3:
		if t.Draw(2) == 0 {
			return StreamPlan{Kind: StreamStuck, N: t.Draw(60)}
		}
	}
	return StreamPlan{}
}

type c07Case struct {
	Tree        *TreeCase
	Argv        []string
	Kind        string // "valid" | "rejected" | "help" | "help-as-data" | "version"
	Level       int    // level rejecting / level whose help is requested
	Cause       rejectCause
	Stream      StreamPlan
	HelpTok     string
	ExtraBroken int // help cases: another level made invalid on purpose (-1 none)
	VersionText string
	Env         EnvState          // the simulator-owned variables (only a level with an env-backed option looks at them)
	EnvLate     *EnvState         // when set: installed between the declarations of the root and Run (single runs only)
	Ambient     map[string]string // well-known variables of the host environment the library has no business reading
}

func (c *c07Case) Describe() interface{} {
	m := map[string]interface{}{"argv": c.Argv, "kind": c.Kind, "level": c.Level, "stream": c.Stream.String(), "app": c.Tree.App.Describe()}
	if c.Kind == "rejected" {
		m["cause"] = rejectCauseNames[c.Cause]
	}
	if c.EnvLate != nil {
		m["env_set_between_the_declarations_and_run"] = c.EnvLate.Describe()
	}
	if c.ExtraBroken >= 0 {
		m["level_made_invalid_on_purpose"] = c.ExtraBroken
	}
	if len(c.Ambient) > 0 {
		m["ambient_environment"] = c.Ambient
	}
	if e := c.Env.Describe(); len(e) > 0 {
		m["env"] = e
	}
	return m
}

func usagePath(tc *TreeCase, level int) string {
	parts := []string{}
	for i := 0; i <= level; i++ {
		parts = append(parts, strings.Fields(tc.Path[i].Name)[0])
	}
	return strings.Join(parts, " ")
}

func c07Callbacks(t *Tape, lvl int, role string, onPath bool) CB {
	if role == "action" && onPath {
		return CB{Kind: CBReturn}
	}
	if t.Draw(6) == 0 {
		return CB{Kind: CBAbsent}
	}
	return CB{Kind: CBReturn}
}

// ---------------------------------------------------------------------------

type c07Prop struct{}

func init() { register(c07Prop{}) }

func (c07Prop) ID() string { return "C07" }

func (c07Prop) Rule() string {
	return "case = command tree (depth 0..4, aliases, siblings, per-level spec templates with a known language, recording callbacks on every level) x an invocation valid by construction, " +
		"then either left valid or rejected by one cause (missing / surplus positional, undeclared option, int or bool conversion failure, injected Set error on a custom value at its k-th call) at one level; " +
		"x error stream plan (healthy / closed / fail after N bytes / short writes); every case runs under all three error policies. " +
		"distinct = distinct (depth, level, cause, template of the level, stream kind); non-trivial = rejected, or valid under a faulty stream."
}

func (c07Prop) Phases(tier string) []PhaseCfg {
	n, m := 40_000, 3_000
	if tier == "thorough" {
		n, m = 4_000_000, 200_000
	}
	return []PhaseCfg{{Name: "seeded", Count: n, P: map[string]int{"maxdepth": 4}},
		{Name: "scheduled-pairs", Count: m, P: map[string]int{"maxdepth": 3, "pair": 1}},
		{Name: "sessions", Count: 4 * m, P: map[string]int{"maxdepth": 6, "session": 1}}}
}

func (c07Prop) Gen(t *Tape, ph *PhaseCfg) Case {
	if ph.P["session"] == 1 {
		return genSession(t, ph.P["maxdepth"], false, func(t *Tape, tc *TreeCase) *c07Case { return c07Invocation(t, tc, false) })
	}
	if ph.P["pair"] == 1 {
		a := c07Prop{}.genOne(t, ph)
		b := c07Prop{}.genOne(t, ph)
		return &pairCase{A: a, B: b, Strategy: t.Draw(numStrats), tape: t}
	}
	return c07Prop{}.genOne(t, ph)
}

func (c07Prop) genOne(t *Tape, ph *PhaseCfg) *c07Case {
	tc := genTree(t, TreeOpts{Depth: -1, MaxDepth: ph.P["maxdepth"], Policy: 0, CB: c07Callbacks, Fancy: true, Templates: allTplsAndRepeatedScalar})
	return c07Invocation(t, tc, true)
}

// c07Invocation turns the (valid) command line of tc into one invocation: left valid or rejected.
func c07Invocation(t *Tape, tc *TreeCase, allowSetError bool) *c07Case {
	c := &c07Case{Tree: tc, Kind: "valid", ExtraBroken: -1}
	if t.Draw(4) != 0 {
		c.Level = t.Draw(len(tc.Path))
		first := 1 + t.Draw(int(numRejectCauses)-1)
		for k := 0; k < int(numRejectCauses)-1; k++ {
			cause := rejectCause(1 + (first-1+k)%(int(numRejectCauses)-1))
			if cause == rcSetError && !allowSetError {
				continue
			}
			if toks, ok := applyReject(t, tc.Tpl[c.Level], tc.Path[c.Level], tc.Tokens[c.Level], cause); ok {
				tc.Tokens[c.Level] = toks
				c.Cause = cause
				c.Kind = "rejected"
				if cause == rcVersionNotFirst {
					tc.App.Version = []string{"V version", "9.9.9-sim"}
				}
				if cause == rcMandatoryLeftToBadEnv {
					if bad := []string{"", ",", "8080,", ",8080", ",,,", "zz", "1,x", " "}[t.Draw(8)]; bad != "" {
						c.Env.Set(0, bad)
					}
				}
				if cause == rcMandatoryEnvSetTooLate {
					late := c.Env
					late.Set(0, []string{"80", "80,8080", " 1 , 2 "}[t.Draw(3)])
					c.EnvLate = &late
				}
				break
			}
		}
	}
	c.Stream = drawStream(t)
	c.Ambient = drawAmbient(t)
	for _, tp := range tc.Tpl {
		if tp == 9 && t.Draw(2) == 0 {
			c.Env.Set(1, []string{"true", "1", "false"}[t.Draw(3)]) // -v of that level also has an environment value
		}
	}
	c.Argv = tc.Argv()
	return c
}

type policyRun struct {
	p    *Proc
	inst *Instance
	snap map[string]VarSnap // the variables as read inside the Action of this run
}

func runUnderPolicies(tc *TreeCase, argv []string, stream StreamPlan) [3]policyRun {
	return runUnderPoliciesEnv(tc, argv, stream, EnvState{}, nil)
}

// runUnderPoliciesEnv: with late set, the environment is `early` while the root is declared and `late` from then on.
func runUnderPoliciesEnv(tc *TreeCase, argv []string, stream StreamPlan, early EnvState, late *EnvState) [3]policyRun {
	var runs [3]policyRun
	for i, pol := range policies {
		app := *tc.App
		app.Policy = pol
		resetProbeState(&app)
		p := NewProc(i)
		p.Stream = stream
		var inst *Instance
		if late != nil {
			early.Apply()
		}
		RunProc(p, func() error {
			inst = Build(&app, p)
			if late != nil {
				late.Apply()
			}
			return inst.Cli.Run(argv)
		})
		runs[i] = policyRun{p, inst, nil}
		if inst != nil {
			runs[i].snap = inst.ActionSnap
		}
	}
	return runs
}

// resetProbeState: ProbeSpec is immutable configuration; nothing to reset (kept for clarity).
func resetProbeState(*AppDecl) {}

func expectedValidEvents(tc *TreeCase) []string {
	ev, _ := c05Model(tc.Path)
	return ev
}

func observedRuns(runs [3]policyRun) interface{} {
	m := map[string]interface{}{}
	for i, r := range runs {
		m[policyName(policies[i])] = map[string]interface{}{"end": describeEnd(r.p), "events": r.p.Observed(), "exit_calls": r.p.ExitCalls, "stderr": clip(r.p.Stderr.String(), 600)}
	}
	return m
}

func clip(s string, n int) string {
	if len(s) > n {
		return s[:n] + "…"
	}
	return s
}

func (c07Prop) Exec(cc Case, st *Stats) *Violation {
	caseEnv(cc).Apply()
	defer EnvState{}.Apply()
	defer applyAmbient(caseAmbient(cc))()
	if pc, ok := cc.(*pairCase); ok {
		return execPair(pc, st, c07Verdict)
	}
	if sc, ok := cc.(*sessionCase); ok {
		return execSession(sc, st, c07Verdict)
	}
	c := cc.(*c07Case)
	return c07Verdict(c, runUnderPoliciesEnv(c.Tree, c.Argv, c.Stream, c.Env, c.EnvLate), st)
}

func c07Verdict(c *c07Case, runs [3]policyRun, st *Stats) *Violation {
	st.Evals++
	tpl := c.Tree.Tpl[c.Level]
	st.Count("kind." + c.Kind)
	st.Count("stream." + []string{"healthy", "closed", "fail_after", "short", "stuck"}[c.Stream.Kind])
	if c.Kind == "rejected" {
		st.Count("fired.reject." + rejectCauseNames[c.Cause])
		st.Count(fmt.Sprintf("reject.level=%d", c.Level))
	}
	if runs[0].p.WriteFaults > 0 {
		st.Count("fired.stream_write_error")
	}
	if c.Kind == "rejected" || c.Stream.Kind != StreamHealthy {
		st.Nontrivial(fnv64(fmt.Sprintf("d%d l%d c%d t%d s%d", c.Tree.Depth(), c.Level, c.Cause, tpl, c.Stream.Kind)))
		st.Sample(c.Describe())
	}
	obs := observedRuns(runs)
	for i, r := range runs {
		if r.p.End == EndBudget {
			return &Violation{Clause: "terminates", Detail: policyName(policies[i]) + ": the run exceeded the " + r.p.Budget + " budget", Observed: obs}
		}
	}
	if c.Kind == "valid" {
		exp := expectedValidEvents(c.Tree)
		for i, r := range runs {
			if r.p.End != EndReturned || r.p.Err != nil {
				return &Violation{Clause: "accepted-returns-nil", Detail: policyName(policies[i]) + ": an accepted invocation must return nil and never exit or panic", Expected: "returned nil", Observed: obs}
			}
			if !equalStrings(r.p.Observed(), exp) {
				return &Violation{Clause: "accepted-runs", Detail: policyName(policies[i]) + ": an accepted invocation must run the interceptors and the Action of the addressed path", Expected: exp, Observed: obs}
			}
		}
		return nil
	}
	// rejected
	usage := "Usage: " + usagePath(c.Tree, c.Level)
	for i, r := range runs {
		pn := policyName(policies[i])
		if len(r.p.Observed()) != 0 {
			return &Violation{Clause: "rejected-runs-nothing", Detail: pn + ": a rejected invocation ran a callback", Expected: "no callback event", Observed: obs}
		}
		eff := effectivePolicy(c.Tree, c.Level, policies[i])
		if eff != policies[i] {
			st.Count("reach.rejecting_command_has_its_own_policy")
			pn += " application, " + policyName(eff) + " set by the rejecting command's own initializer chain"
		}
		switch eff {
		case flag.ContinueOnError:
			if r.p.End != EndReturned || r.p.Err == nil {
				return &Violation{Clause: "policy-continue", Detail: pn + ": ContinueOnError: Run must return a non-nil error", Expected: "returned error", Observed: obs}
			}
		case flag.ExitOnError:
			if r.p.End != EndExited || r.p.ExitCode != 2 || r.p.ExitCalls != 1 {
				return &Violation{Clause: "policy-exit", Detail: pn + ": ExitOnError: the process must exit once with status 2", Expected: "exited(2), once", Observed: obs}
			}
		case flag.PanicOnError:
			err, isErr := r.p.PanicVal.(error)
			if r.p.End != EndPanicked || !isErr || err == nil {
				return &Violation{Clause: "policy-panic", Detail: pn + ": PanicOnError: Run must panic with the (non-nil) error", Expected: "panicked(error)", Observed: obs}
			}
		}
		if c.Stream.Kind == StreamHealthy {
			out := r.p.Stderr.String()
			if !strings.Contains(out, "Error: ") {
				return &Violation{Clause: "stream-error-text", Detail: pn + ": the error is missing from the error stream", Expected: "Error: …", Observed: obs}
			}
			if !strings.Contains(out, usage+" ") && !strings.Contains(out, usage+"\n") {
				return &Violation{Clause: "stream-usage", Detail: pn + ": the usage of the rejecting command is missing from the error stream", Expected: usage, Observed: obs}
			}
			if c.Cause == rcSetError {
				want := probeErrors[(c.Tree.Path[c.Level].Decls[0].Probe.ErrKind+1)%len(probeErrors)].Error()
				if !strings.Contains(out, "Error: "+want) {
					return &Violation{Clause: "stream-error-text", Detail: pn + ": the error returned by Set is missing from the error stream", Expected: want, Observed: obs}
				}
			}
		}
	}
	if c.Stream.Kind == StreamHealthy {
		a, b, d := runs[0].p.Stderr.String(), runs[1].p.Stderr.String(), runs[2].p.Stderr.String()
		if a != b || a != d {
			return &Violation{Clause: "transcript-policy-independent", Detail: "the error stream content differs between the three policies", Observed: obs}
		}
	}
	return nil
}

// ---------------------------------------------------------------------------

type c14Prop struct{}

func init() { register(c14Prop{}) }

func (c14Prop) ID() string { return "C14" }

func (c14Prop) Rule() string {
	return "case = command tree as in C07 x a help token (-h / --help) inserted at a drawn position of a drawn level's own tokens (or after a `--` of that level: ordinary data), " +
		"or a declared version flag in first position; optionally another level (ancestor, the level itself, or below) made invalid on purpose; x error stream plan; all three error policies. " +
		"distinct = distinct (kind, depth, level, position, token, broken level, stream kind); non-trivial = every help/version/data case."
}

func (c14Prop) Phases(tier string) []PhaseCfg {
	n, m := 40_000, 3_000
	if tier == "thorough" {
		n, m = 4_000_000, 200_000
	}
	return []PhaseCfg{{Name: "seeded", Count: n, P: map[string]int{"maxdepth": 4}},
		{Name: "scheduled-pairs", Count: m, P: map[string]int{"maxdepth": 3, "pair": 1}},
		{Name: "sessions", Count: 4 * m, P: map[string]int{"maxdepth": 6, "session": 1}}}
}

func (c14Prop) Gen(t *Tape, ph *PhaseCfg) Case {
	if ph.P["session"] == 1 {
		return genSession(t, ph.P["maxdepth"], true, func(t *Tape, tc *TreeCase) *c07Case {
			return c14Invocation(t, tc, []string{"help", "help", "help", "help-as-data", "valid"}[t.Draw(5)])
		})
	}
	if ph.P["pair"] == 1 {
		a := c14Prop{}.genOne(t, ph)
		b := c14Prop{}.genOne(t, ph)
		return &pairCase{A: a, B: b, Strategy: t.Draw(numStrats), tape: t}
	}
	return c14Prop{}.genOne(t, ph)
}

func (c14Prop) genOne(t *Tape, ph *PhaseCfg) *c07Case {
	kind := []string{"help", "help", "help", "help-as-data", "version", "valid"}[t.Draw(6)]
	opts := TreeOpts{Depth: -1, MaxDepth: ph.P["maxdepth"], Policy: 0, CB: c07Callbacks, Fancy: true}
	tc := genTree(t, opts)
	return c14Invocation(t, tc, kind)
}

// c14Invocation turns the (valid) command line of tc into one invocation of the given kind.
func c14Invocation(t *Tape, tc *TreeCase, kind string) *c07Case {
	c := &c07Case{Tree: tc, Kind: kind, ExtraBroken: -1}
	c.HelpTok = []string{"-h", "--help"}[t.Draw(2)]
	switch kind {
	case "help":
		c.Level = t.Draw(len(tc.Path))
		// optionally make some level invalid: help must still win
		if t.Draw(2) == 1 {
			lvl := t.Draw(len(tc.Path))
			first := 1 + t.Draw(int(numRejectCauses)-1)
			for k := 0; k < int(numRejectCauses)-1; k++ {
				cause := rejectCause(1 + (first-1+k)%(int(numRejectCauses)-1))
				if cause == rcSetError {
					continue // arming a failing Set changes the declarations, which sessions share
				}
				if toks, ok := applyReject(t, tc.Tpl[lvl], tc.Path[lvl], tc.Tokens[lvl], cause); ok {
					if lvl < c.Level && cause == rcSurplusPositional {
						// help below an ancestor whose own arguments contain `--` is not claimed: another surplus token
						plain := []string{}
						dd := false
						for _, tok := range toks {
							if tok == "--" {
								dd = true
								continue
							}
							plain = append(plain, tok)
						}
						if dd {
							toks = append(plain, "y0")
						}
					}
					tc.Tokens[lvl] = toks
					c.ExtraBroken = lvl
					c.Cause = cause
					break
				}
			}
		}
		toks := tc.Tokens[c.Level]
		before := len(toks)
		for i, tok := range toks {
			if tok == "--" {
				before = i // the help token goes in front of the level's first `--`: behind it, it would be data
				break
			}
		}
		pos := t.Draw(before + 1)
		tc.Tokens[c.Level] = append(append(append([]string{}, toks[:pos]...), c.HelpTok), toks[pos:]...)
		if c.Level+1 < len(tc.Path) && t.Draw(5) == 0 {
			// a second help token, of the other spelling, further down the path: the first one decides
			lower := c.Level + 1 + t.Draw(len(tc.Path)-c.Level-1)
			other := map[string]string{"-h": "--help", "--help": "-h"}[c.HelpTok]
			tc.Tokens[lower] = append(tc.Tokens[lower], other)
		}
		if c.Level == 0 && t.Draw(4) == 0 {
			// a declared version flag right behind the help token: not in first position, so it is no version request
			tc.App.Version = []string{"V version", "8.8.8-sim"}
			vt := []string{"-V", "--version"}[t.Draw(2)]
			tc.Tokens[0] = append(append(append(append([]string{}, toks[:pos]...), c.HelpTok), vt), toks[pos:]...)
		}
	case "help-as-data":
		// a level whose spec takes positionals after `--`: X... (template 4) or X (template 2)
		lvl := -1
		start := t.Draw(len(tc.Path))
		for k := 0; k < len(tc.Path); k++ {
			l := (start + k) % len(tc.Path)
			if tc.Tpl[l] == 4 || tc.Tpl[l] == 2 || tc.Tpl[l] == 7 || tc.Tpl[l] == 10 {
				lvl = l
				break
			}
		}
		if lvl < 0 {
			c.Kind = "valid"
			break
		}
		c.Level = lvl
		if tc.Tpl[lvl] == 10 {
			tc.Tokens[lvl] = [][]string{{"--", c.HelpTok}, {"--", "x1", c.HelpTok}, {"--", c.HelpTok, "x2"}}[t.Draw(3)]
		} else if tc.Tpl[lvl] == 2 || tc.Tpl[lvl] == 7 {
			tc.Tokens[lvl] = []string{"--", c.HelpTok}
		} else {
			toks := append([]string{"--"}, tc.Tokens[lvl]...)
			pos := 1 + t.Draw(len(toks))
			tc.Tokens[lvl] = append(append(append([]string{}, toks[:pos]...), c.HelpTok), toks[pos:]...)
		}
	case "version":
		names := []string{"V version", "V W version", "version ver", "W"}[t.Draw(4)]
		tc.App.Version = []string{names, "v" + fmt.Sprint(1+t.Draw(9)) + ".2.3-sim"}
		switch t.Draw(8) {
		case 0:
			tc.App.Version[1] = "" // a development build whose version variable was left unset
		case 1:
			tc.App.Version[1] = []string{"2.0.0-rc1 (100% static)", "build%20tag/7", "%d%s%v", "1.0%"}[t.Draw(4)]
		}
		c.VersionText = tc.App.Version[1]
		c.Level = 0
		// any of the declared names, not only the first short and the first long one
		all := strings.Fields(names)
		vt := all[t.Draw(len(all))]
		if len(vt) == 1 {
			vt = "-" + vt
		} else {
			vt = "--" + vt
		}
		// the rest of the root's own tokens may be anything, valid or not
		tc.Tokens[0] = append([]string{vt}, tc.Tokens[0]...)
		if t.Draw(2) == 1 {
			tc.Tokens[0] = append(tc.Tokens[0], "--zzz")
		}
		if t.Draw(4) == 0 {
			// a help token further along: the version flag is the first argument, so the version string is printed
			// (whether a help text comes with it is not looked at)
			lvl := t.Draw(len(tc.Path))
			tc.Tokens[lvl] = append(tc.Tokens[lvl], c.HelpTok)
		}
	}
	c.Stream = drawStream(t)
	c.Ambient = drawAmbient(t)
	for _, tp := range tc.Tpl {
		if tp == 9 && t.Draw(2) == 0 {
			c.Env.Set(1, []string{"true", "1", "false"}[t.Draw(3)]) // -v of that level also has an environment value
		}
	}
	c.Argv = tc.Argv()
	return c
}

func (c14Prop) Exec(cc Case, st *Stats) *Violation {
	caseEnv(cc).Apply()
	defer EnvState{}.Apply()
	defer applyAmbient(caseAmbient(cc))()
	if pc, ok := cc.(*pairCase); ok {
		return execPair(pc, st, c14Verdict)
	}
	if sc, ok := cc.(*sessionCase); ok {
		return execSession(sc, st, c14Verdict)
	}
	c := cc.(*c07Case)
	return c14Verdict(c, runUnderPolicies(c.Tree, c.Argv, c.Stream), st)
}

func c14Verdict(c *c07Case, runs [3]policyRun, st *Stats) *Violation {
	st.Evals++
	st.Count("kind." + c.Kind)
	st.Count("stream." + []string{"healthy", "closed", "fail_after", "short", "stuck"}[c.Stream.Kind])
	if c.ExtraBroken >= 0 {
		st.Count("reach.help_with_invalid_level")
		if c.ExtraBroken < c.Level {
			st.Count("reach.help_below_invalid_ancestor")
		}
	}
	if runs[0].p.WriteFaults > 0 {
		st.Count("fired.stream_write_error")
	}
	if c.Kind != "valid" {
		pos := 0
		for i, tok := range c.Tree.Tokens[c.Level] {
			if tok == c.HelpTok {
				pos = i
			}
		}
		st.Nontrivial(fnv64(fmt.Sprintf("%s d%d l%d p%d %s b%d s%d", c.Kind, c.Tree.Depth(), c.Level, pos, c.HelpTok, c.ExtraBroken, c.Stream.Kind)))
		st.Sample(c.Describe())
	}
	obs := observedRuns(runs)
	for i, r := range runs {
		if r.p.End == EndBudget {
			return &Violation{Clause: "terminates", Detail: policyName(policies[i]) + ": the run exceeded the " + r.p.Budget + " budget", Observed: obs}
		}
	}
	switch c.Kind {
	case "valid", "help-as-data":
		exp := expectedValidEvents(c.Tree)
		for i, r := range runs {
			pn := policyName(policies[i])
			if r.p.End != EndReturned || r.p.Err != nil || !equalStrings(r.p.Observed(), exp) {
				d := pn + ": a valid invocation must run and return nil"
				if c.Kind == "help-as-data" {
					d = pn + ": a help token after this command's own `--` is ordinary data: the invocation must be accepted and run"
				}
				return &Violation{Clause: "help-token-as-data", Detail: d, Expected: exp, Observed: obs}
			}
			if c.Kind == "help-as-data" {
				key := c.Tree.Path[c.Level].Tag + "/X"
				snap, ok := r.snap[key]
				if y, okY := r.snap[c.Tree.Path[c.Level].Tag+"/Y"]; okY && strings.Contains(y.Val, `"`+c.HelpTok+`"`) {
					snap, ok = y, true
				}
				if !ok || !strings.Contains(snap.Val, `"`+c.HelpTok+`"`) {
					return &Violation{Clause: "help-token-as-data", Detail: pn + ": the help token after `--` must be bound verbatim to the positional argument", Expected: c.HelpTok, Observed: map[string]interface{}{"X": snap.Val, "runs": obs}}
				}
			}
		}
		return nil
	}
	// help or version: nothing runs, documented end, expected text
	want := "Usage: " + usagePath(c.Tree, c.Level)
	for i, r := range runs {
		pn := policyName(policies[i])
		if len(r.p.Observed()) != 0 {
			return &Violation{Clause: "help-runs-nothing", Detail: pn + ": a " + c.Kind + " request ran a callback", Expected: "no callback event", Observed: obs}
		}
		eff := effectivePolicy(c.Tree, 0, policies[i]) // a version request is the application's own business
		if c.Kind == "help" {
			eff = effectivePolicy(c.Tree, c.Level, policies[i])
			if eff != policies[i] {
				st.Count("reach.addressed_command_has_its_own_policy")
				pn += " application, " + policyName(eff) + " set by the addressed command's own initializer chain"
			}
		}
		if eff == flag.ExitOnError {
			if r.p.End != EndExited || r.p.ExitCode != 0 || r.p.ExitCalls != 1 {
				return &Violation{Clause: "help-end", Detail: pn + ": ExitOnError: a " + c.Kind + " request must exit once with status 0", Expected: "exited(0)", Observed: obs}
			}
		} else if r.p.End != EndReturned || r.p.Err != nil {
			return &Violation{Clause: "help-end", Detail: pn + ": a " + c.Kind + " request must return nil", Expected: "returned nil", Observed: obs}
		}
		if c.Stream.Kind != StreamHealthy {
			continue
		}
		out := r.p.Stderr.String()
		if c.Kind == "version" {
			if !strings.Contains(out, c.VersionText) {
				return &Violation{Clause: "version-text", Detail: pn + ": the version string is missing from the output", Expected: c.VersionText, Observed: obs}
			}
			continue
		}
		if !strings.Contains(out, want+" ") && !strings.Contains(out, want+"\n") {
			return &Violation{Clause: "help-usage", Detail: pn + ": the help of the addressed command is missing", Expected: want, Observed: obs}
		}
		if strings.Contains(out, "Error: ") {
			return &Violation{Clause: "help-no-validation", Detail: pn + ": a help request must not validate the arguments", Expected: "no error text", Observed: obs}
		}
		if ld := c.Tree.Path[c.Level].LongDesc; ld != "" && !strings.Contains(out, ld) {
			return &Violation{Clause: "help-long", Detail: pn + ": --help/-h must print the long description when set", Expected: ld, Observed: obs}
		}
	}
	return nil
}

// sessionLate: a command registered on the application object after it has already run (plugins, a REPL that
// learns commands) is addressed like any other: its help names its own path, nothing runs, the end is the
// documented one for the policy it inherited from the root at the moment of its declaration.
func sessionLate(sc *sessionCase, inst *Instance, pol flag.ErrorHandling, st *Stats) *Violation {
	st.Count("reach.help_of_a_command_registered_after_the_first_run")
	tc := sc.Invocations[0].Tree
	argv := lateArgv(sc)
	ran := false
	p := NewProc(100)
	RunProc(p, func() error {
		inst.Proc = p
		inst.Cli.Command("late l8", "registered after the application has run", func(c *cli.Cmd) {
			c.Command("deep", "below the late command", func(d *cli.Cmd) { d.Action = func() { ran = true } })
			c.Action = func() { ran = true }
		})
		return inst.Cli.Run(argv)
	})
	want := "Usage: " + strings.Join(argv[:len(argv)-1], " ")
	if sc.Late == 3 {
		want = "Usage: " + argv[0] + " late"
	}
	pn := policyName(pol)
	obs := map[string]interface{}{"argv": argv, "end": describeEnd(p), "stderr": clip(p.Stderr.String(), 600)}
	if ran || len(p.Observed()) != 0 {
		return &Violation{Clause: "session-help-runs-nothing", Detail: pn + ": the help request for a command registered after the first run ran a callback", Expected: "no callback event", Observed: obs}
	}
	if eff := effectivePolicy(tc, 0, pol); eff == flag.ExitOnError {
		if p.End != EndExited || p.ExitCode != 0 || p.ExitCalls != 1 {
			return &Violation{Clause: "session-help-end", Detail: pn + ": a help request for a command registered after the first run must exit once with status 0", Expected: "exited(0)", Observed: obs}
		}
	} else if p.End != EndReturned || p.Err != nil {
		return &Violation{Clause: "session-help-end", Detail: pn + ": a help request for a command registered after the first run must return nil", Expected: "returned nil", Observed: obs}
	}
	out := p.Stderr.String()
	if !strings.Contains(out, want+" ") && !strings.Contains(out, want+"\n") {
		return &Violation{Clause: "session-help-usage", Detail: pn + ": the help of the addressed command (registered after the first run) is missing", Expected: want, Observed: obs}
	}
	return nil
}

// ---------------------------------------------------------------------------
// Scheduled pairs: two cases run as concurrent simulated processes under the cooperative
// scheduler (one world per error policy), then each is judged by the same oracle. This is where
// state shared between applications inside the help / rejection paths would surface.

type pairCase struct {
	A, B     *c07Case
	Strategy int
	tape     *Tape
}

func (pc *pairCase) Describe() interface{} {
	return map[string]interface{}{"scheduled_pair": []interface{}{pc.A.Describe(), pc.B.Describe()}, "strategy": stratNames[pc.Strategy]}
}

func execPair(pc *pairCase, st *Stats, verdict func(*c07Case, [3]policyRun, *Stats) *Violation) *Violation {
	var runsA, runsB [3]policyRun
	cases := []*c07Case{pc.A, pc.B}
	for k, pol := range policies {
		procs := make([]*Proc, 2)
		insts := make([]*Instance, 2)
		bodies := make([]func() error, 2)
		for i, c := range cases {
			i, c := i, c
			app := *c.Tree.App
			app.Policy = pol
			procs[i] = NewProc(i)
			procs[i].Stream = c.Stream
			bodies[i] = func() error {
				insts[i] = Build(&app, procs[i])
				return insts[i].Cli.Run(c.Argv)
			}
		}
		s := RunScheduled(pc.tape, pc.Strategy, procs, bodies)
		st.Add("fired.context_switches", int64(s.Switches))
		if s.Switches >= 2 {
			st.InSet("schedules_with_2plus_switches (hash of the grant sequence: process, site)", s.Hash())
		}
		if s.Switches >= 2 {
			st.InSet("schedules_with_2plus_switches (hash of the grant sequence: process, site)", s.Hash())
		}
		st.Count("strategy." + stratNames[s.Strategy])
		if s.Deadlock {
			return &Violation{Clause: "concurrent-run-finishes", Detail: "two applications run together did not both finish", Observed: s.DescribeGrants(60)}
		}
		runsA[k] = policyRun{procs[0], insts[0], nil}
		runsB[k] = policyRun{procs[1], insts[1], nil}
		if insts[0] != nil {
			runsA[k].snap = insts[0].ActionSnap
		}
		if insts[1] != nil {
			runsB[k].snap = insts[1].ActionSnap
		}
	}
	st.Count("scheduled_pairs")
	if v := verdict(pc.A, runsA, st); v != nil {
		v.Detail = "(run together with another application under the scheduler) " + v.Detail
		return v
	}
	if v := verdict(pc.B, runsB, st); v != nil {
		v.Detail = "(run together with another application under the scheduler) " + v.Detail
		return v
	}
	return nil
}

// ---------------------------------------------------------------------------
// Sessions: one application object invoked several times with different command lines (a REPL
// or server loop). Only trees whose sub-commands declare nothing can be initialised twice.

type sessionCase struct {
	Invocations []*c07Case
	// Late: after the invocations the host program registers one more command on the same application object and
	// asks for its help (0 = no; 1 = `late <help>`; 2 = `late deep <help>`; 3 = `l8 <help>` through its alias)
	Late     int
	LateHelp string
}

func (sc *sessionCase) Describe() interface{} {
	inv := []interface{}{}
	for _, c := range sc.Invocations {
		inv = append(inv, map[string]interface{}{"argv": c.Argv, "kind": c.Kind, "level": c.Level, "stream": c.Stream.String()})
	}
	m := map[string]interface{}{"session_on_one_application_object": inv, "app": sc.Invocations[0].Tree.App.Describe()}
	if sc.Late > 0 {
		m["then_a_command_registered_late_is_asked_for_help"] = lateArgv(sc)
	}
	return m
}

func genSession(t *Tape, maxDepth int, late bool, one func(t *Tape, tc *TreeCase) *c07Case) *sessionCase {
	base := genTree(t, TreeOpts{Depth: -1, MaxDepth: maxDepth, Policy: 0, CB: c07Callbacks, SubBare: true, Fancy: true})
	sc := &sessionCase{}
	n := 2 + t.Draw(2)
	for i := 0; i < n; i++ {
		tc := base.cloneTokens()
		// a fresh valid command line for the root level (the sub-levels have no tokens of their own)
		tc.Tokens[0] = levelTpls[tc.Tpl[0]].valid(t)
		sc.Invocations = append(sc.Invocations, one(t, tc))
	}
	if late && t.Draw(4) == 0 {
		sc.Late = 1 + t.Draw(3)
		sc.LateHelp = []string{"-h", "--help"}[t.Draw(2)]
	}
	return sc
}

func lateArgv(sc *sessionCase) []string {
	root := strings.Fields(sc.Invocations[0].Tree.Path[0].Name)[0]
	switch sc.Late {
	case 2:
		return []string{root, "late", "deep", sc.LateHelp}
	case 3:
		return []string{root, "l8", sc.LateHelp}
	}
	return []string{root, "late", sc.LateHelp}
}

func execSession(sc *sessionCase, st *Stats, verdict func(*c07Case, [3]policyRun, *Stats) *Violation) *Violation {
	n := len(sc.Invocations)
	runs := make([][3]policyRun, n)
	var lateViolation *Violation
	for k, pol := range policies {
		app := *sc.Invocations[0].Tree.App
		app.Policy = pol
		var inst *Instance
		for i, c := range sc.Invocations {
			p := NewProc(i)
			p.Stream = c.Stream
			c := c
			RunProc(p, func() error {
				if inst == nil {
					inst = Build(&app, p)
				}
				inst.Proc = p
				inst.ActionSnap = nil
				return inst.Cli.Run(c.Argv)
			})
			runs[i][k] = policyRun{p, inst, nil}
			if inst != nil {
				runs[i][k].snap = inst.ActionSnap
			}
		}
		if sc.Late > 0 && inst != nil && lateViolation == nil {
			lateViolation = sessionLate(sc, inst, pol, st)
		}
	}
	st.Count("sessions")
	if v := lateViolation; v != nil {
		return v
	}
	for i, c := range sc.Invocations {
		if v := verdict(c, runs[i], st); v != nil {
			v.Clause = "session-" + v.Clause
			v.Detail = fmt.Sprintf("(invocation %d of %d on the same application object) %s", i+1, n, v.Detail)
			return v
		}
	}
	return nil
}
