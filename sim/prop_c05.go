package main

import (
	"fmt"
	"strings"
)

// C05 — Before/Action/After run in nesting order; Afters always run; Exit comes last.
//
// World: every Before/Action/After along the addressed path is a simulator-owned fault
// point (absent / returns / panics(v) / Exit(n)); the process-exit seam stops the simulated
// process at the call. Oracle: the executable reference model of the documented diagram
// (DESIGN.md Appendix B), independent of internal/flow.

type c05Prop struct{}

func init() { register(c05Prop{}) }

func (c05Prop) ID() string { return "C05" }

func (c05Prop) Rule() string {
	return "case = command tree with an addressed path of depth d (0..5) x one outcome in {absent, returns, panics(v), Exit(n)} for every Before, " +
		"the Action and every After on the path (plus error policy, aliases, siblings, per-level valid tokens). Enumerated phases sweep every outcome vector of a depth; " +
		"seeded phases draw depth, vector, panic value kinds and exit codes from the tape. distinct = distinct (depth, outcome vector incl. exit codes and panic kinds, policy); " +
		"non-trivial = at least one callback on the path raises (panics or exits)."
}

func (c05Prop) Phases(tier string) []PhaseCfg {
	enum := func(d int) PhaseCfg {
		rad := make([]int, 2*(d+1)+1)
		for i := range rad {
			rad[i] = 4
		}
		return PhaseCfg{Name: fmt.Sprintf("enum-depth-%d", d), Radix: rad, Count: product(rad), P: map[string]int{"depth": d}}
	}
	if tier == "thorough" {
		return []PhaseCfg{enum(0), enum(1), enum(2), {Name: "seeded", Count: 20_000_000, P: map[string]int{"maxdepth": 5}}, pairPhase(4_000, 400_000, tier)}
	}
	return []PhaseCfg{enum(0), enum(1), {Name: "seeded", Count: 150_000, P: map[string]int{"maxdepth": 5}}, pairPhase(4_000, 300_000, tier)}
}

type c05Case struct {
	Tree   *TreeCase
	Argv   []string
	Stream StreamPlan
}

func (c *c05Case) Describe() interface{} {
	path := []string{}
	for i, p := range c.Tree.Path {
		path = append(path, fmt.Sprintf("L%d %s: Before %s; Action %s; After %s", i, p.Tag, p.Before, p.Action, p.After))
	}
	return map[string]interface{}{"argv": c.Argv, "path": path, "app": c.Tree.App.Describe(), "stream": c.Stream.String()}
}

func drawCB(t *Tape, rich bool) CB {
	cb := CB{Kind: CBKind(t.Draw(4))}
	if rich {
		switch cb.Kind {
		case CBPanic:
			cb.PanicKind = t.Draw(len(panicKindNames))
		case CBExit:
			cb.ExitCode = exitCodes[t.Draw(len(exitCodes))]
		}
	} else if cb.Kind == CBExit {
		cb.ExitCode = 3
	}
	return cb
}

func (c05Prop) Gen(t *Tape, ph *PhaseCfg) Case {
	if ph.P["pair"] == 1 {
		one := PhaseCfg{P: map[string]int{"maxdepth": ph.P["maxdepth"]}}
		return genPair(t, func() Case { return c05Prop{}.Gen(t, &one) })
	}
	if ph.Enum() {
		// draw order: for each level Before, After; then the Action of the addressed command.
		d := ph.P["depth"]
		var befores, afters []CB
		for i := 0; i <= d; i++ {
			befores = append(befores, drawCB(t, false))
			afters = append(afters, drawCB(t, false))
		}
		action := drawCB(t, false)
		tc := genTree(t, TreeOpts{Depth: d, Minimal: true, Policy: 0, CB: func(_ *Tape, lvl int, role string, onPath bool) CB {
			switch role {
			case "before":
				return befores[lvl]
			case "after":
				return afters[lvl]
			}
			if lvl == d {
				return action
			}
			return CB{Kind: CBReturn}
		}})
		return &c05Case{Tree: tc, Argv: tc.Argv()}
	}
	// swarm knob: how fault-prone this run is (0 = fault-free configuration)
	rate := []int{0, 1, 3, 6}[t.Draw(4)]
	tc := genTree(t, TreeOpts{Depth: -1, MaxDepth: ph.P["maxdepth"], Policy: -1, Fancy: true, CB: func(t *Tape, lvl int, role string, onPath bool) CB {
		if !onPath && role == "action" {
			// ancestor: recording or absent
			if t.Draw(2) == 0 {
				return CB{Kind: CBAbsent}
			}
			return CB{Kind: CBReturn}
		}
		if t.Draw(8) == 0 {
			return CB{Kind: CBAbsent}
		}
		if t.Draw(8) >= rate {
			return CB{Kind: CBReturn}
		}
		cb := drawCB(t, true)
		if cb.Kind == CBAbsent || cb.Kind == CBReturn {
			cb.Kind = CBPanic
		}
		if cb.Kind == CBExit && t.Draw(5) == 0 {
			cb.Nested = true
		}
		return cb
	}})
	c := &c05Case{Tree: tc, Argv: tc.Argv()}
	// some callbacks print their command's help (public API) before doing what they do; the stream may be faulty
	// (only callbacks of the addressed command: printing the help of a command re-initialises its sub-commands,
	// which panics with "duplicate option name" when one of them was already initialised and declares options -
	// a quirk of the library that is outside this property)
	if t.Draw(4) == 0 {
		l := tc.Path[len(tc.Path)-1]
		bare := true // no sub-command on the path declares anything: re-initialising them is harmless
		for i := 1; i < len(tc.Path); i++ {
			if len(tc.Path[i].Decls) > 0 {
				bare = false
			}
		}
		for _, cb := range []*CB{&l.Before, &l.Action, &l.After} {
			if cb.Kind != CBAbsent && t.Draw(2) == 0 {
				cb.Help = 1 + t.Draw(2)
				if bare && t.Draw(2) == 0 {
					cb.HelpTag = tc.Path[t.Draw(len(tc.Path))].Tag // the help of an ancestor (or of the command itself)
				}
			}
		}
		c.Stream = drawStream(t)
	}
	return c
}

// c05Model is the reference model: it returns the expected event sequence and the name of
// the event whose raised value decides the end ("" = none).
func c05Model(path []*CmdDecl) (events []string, decider string) {
	d := len(path) - 1
	completed := -1
	raised := func(cb CB) bool { return cb.Kind == CBPanic || cb.Kind == CBExit }
	for i := 0; i <= d; i++ {
		if path[i].Before.Kind != CBAbsent {
			ev := "B:" + path[i].Tag
			events = append(events, ev)
			if raised(path[i].Before) {
				decider = ev
				break
			}
		}
		completed = i
	}
	if decider == "" && path[d].Action.Kind != CBAbsent {
		ev := "ACT:" + path[d].Tag
		events = append(events, ev)
		if raised(path[d].Action) {
			decider = ev
		}
	}
	for i := completed; i >= 0; i-- {
		if path[i].After.Kind != CBAbsent {
			ev := "A:" + path[i].Tag
			events = append(events, ev)
			if raised(path[i].After) {
				decider = ev
			}
		}
	}
	return
}

func cbOf(path []*CmdDecl, ev string) CB {
	for _, c := range path {
		switch ev {
		case "B:" + c.Tag:
			return c.Before
		case "A:" + c.Tag:
			return c.After
		case "ACT:" + c.Tag:
			return c.Action
		}
	}
	return CB{}
}

func (c05Prop) Exec(cc Case, st *Stats) *Violation {
	if g, ok := cc.(*genericPair); ok {
		return execGenericPair(g, st, func(c Case, id int) *Prepared { return c05Prepare(c.(*c05Case), id) }, nil, nil)
	}
	EnvState{}.Apply()
	pr := c05Prepare(cc.(*c05Case), 0)
	RunProc(pr.Proc, pr.Body)
	return pr.Finish(st)
}

func c05Prepare(c *c05Case, id int) *Prepared {
	path := c.Tree.Path
	p := NewProc(id)
	p.Stream = c.Stream
	var inst *Instance
	body := func() error {
		inst = Build(c.Tree.App, p)
		return inst.Cli.Run(c.Argv)
	}
	finish := func(st *Stats) *Violation {
		st.Evals++
		if v := c05Check(c, p, st, true); v != nil {
			return v
		}
		// History: the same application object invoked again (a REPL or server loop). Every invocation
		// is "a valid invocation" in the sense of the property, so the same model applies to each.
		// Only trees whose sub-commands declare nothing can be initialised twice.
		rerunnable := inst != nil
		for i := 1; i < len(path); i++ {
			if len(path[i].Decls) > 0 {
				rerunnable = false
			}
		}
		if !rerunnable {
			return nil
		}
		for k := 1; k <= 2; k++ {
			pk := NewProc(10 + k)
			pk.Stream = c.Stream
			inst.Proc = pk
			RunProc(pk, func() error { return inst.Cli.Run(c.Argv) })
			st.Count("reach.same_app_run_again")
			if v := c05Check(c, pk, st, false); v != nil {
				v.Clause = "rerun-" + v.Clause
				v.Detail = fmt.Sprintf("run %d of the same application object: %s", k+1, v.Detail)
				return v
			}
		}
		return nil
	}
	return &Prepared{Proc: p, Body: body, Finish: finish}
}

func c05Check(c *c05Case, p *Proc, st *Stats, first bool) *Violation {
	path := c.Tree.Path
	d := len(path) - 1
	if !first {
		st = NewStats(1)
	}
	obs := p.Observed()
	observed := map[string]interface{}{"events": obs, "end": describeEnd(p), "stderr_bytes": p.Stderr.Len()}

	// reach counters and distinctness
	faults := 0
	var vec strings.Builder
	fmt.Fprintf(&vec, "d%d p%d|", d, c.Tree.App.Policy)
	for _, l := range path {
		for _, cb := range []CB{l.Before, l.Action, l.After} {
			fmt.Fprintf(&vec, "%d.%d.%d,", cb.Kind, cb.PanicKind, cb.ExitCode)
		}
	}
	for i, l := range path {
		cbs := []CB{l.Before, l.After}
		if i == d {
			cbs = append(cbs, l.Action)
		}
		for _, cb := range cbs {
			if cb.Kind == CBPanic || cb.Kind == CBExit {
				faults++
			}
		}
	}
	st.Count(fmt.Sprintf("depth=%d", d))
	if faults == 0 {
		st.Count("config.fault_free")
	} else {
		st.Count("config.faulty")
		st.Nontrivial(fnv64(vec.String()))
	}
	if faults >= 2 {
		st.Sample(c.Describe())
	}

	if path[d].Action.Kind == CBAbsent {
		// the statement is silent about a command without Action: universal clauses only
		st.Count("no_action_at_leaf")
		return c05Universal(c, p, obs, observed)
	}

	exp, decider := c05Model(path)
	expected := map[string]interface{}{"events": exp, "decided_by": decider}

	// fault kinds that fired
	pendingSeen := false
	for _, ev := range exp {
		cb := cbOf(path, ev)
		switch cb.Kind {
		case CBPanic:
			st.Count("fired.panic")
			if pendingSeen && strings.HasPrefix(ev, "A:") {
				st.Count("reach.after_raised_while_pending")
			}
			pendingSeen = true
		case CBExit:
			st.Count("fired.exit")
			if cb.ExitCode == 0 {
				st.Count("reach.exit0")
			}
			if pendingSeen && strings.HasPrefix(ev, "A:") {
				st.Count("reach.after_raised_while_pending")
			}
			pendingSeen = true
		}
	}
	if strings.HasPrefix(decider, "B:") {
		st.Count("reach.before_failed")
	}

	if p.End == EndBudget {
		return &Violation{Clause: "terminates", Detail: "the run exceeded the " + p.Budget + " budget", Expected: expected, Observed: observed}
	}
	if !equalStrings(obs, exp) {
		return &Violation{Clause: "events", Detail: "callback sequence differs from the reference model", Expected: expected, Observed: observed}
	}
	if p.ExitCalls > 1 {
		return &Violation{Clause: "exit-once", Detail: fmt.Sprintf("the exit function was called %d times", p.ExitCalls), Expected: expected, Observed: observed}
	}
	if decider == "" {
		if p.End != EndReturned || p.Err != nil {
			return &Violation{Clause: "end", Detail: "no callback raised: Run must return nil", Expected: expected, Observed: observed}
		}
		return nil
	}
	cb := cbOf(path, decider)
	if cb.Kind == CBExit {
		if p.End != EndExited || p.ExitCode != cb.ExitCode {
			return &Violation{Clause: "end", Detail: fmt.Sprintf("the last raised value is Exit(%d): the process must exit with that status", cb.ExitCode), Expected: expected, Observed: observed}
		}
		return nil
	}
	if p.End != EndPanicked {
		return &Violation{Clause: "end", Detail: "the last raised value is a panic value: Run must re-panic with it", Expected: expected, Observed: observed}
	}
	if !sameValue(p.Raised[decider], p.PanicVal) {
		return &Violation{Clause: "panic-identity", Detail: fmt.Sprintf("Run panicked with %#v, the last raised value was %#v (from %s)", p.PanicVal, p.Raised[decider], decider), Expected: expected, Observed: observed}
	}
	return nil
}

// c05Universal checks what holds for any invocation: every callback at most once, no callback
// of a command off the path, and the order is a subsequence of the canonical order.
func c05Universal(c *c05Case, p *Proc, obs []string, observed interface{}) *Violation {
	path := c.Tree.Path
	canon := []string{}
	for _, l := range path {
		canon = append(canon, "B:"+l.Tag)
	}
	canon = append(canon, "ACT:"+path[len(path)-1].Tag)
	for i := len(path) - 1; i >= 0; i-- {
		canon = append(canon, "A:"+path[i].Tag)
	}
	k := 0
	for _, ev := range obs {
		for k < len(canon) && canon[k] != ev {
			k++
		}
		if k == len(canon) {
			return &Violation{Clause: "universal-order", Detail: "event " + ev + " is foreign, repeated or out of order", Expected: canon, Observed: observed}
		}
		k++
	}
	return nil
}

func equalStrings(a, b []string) bool {
	if len(a) != len(b) {
		return false
	}
	for i := range a {
		if a[i] != b[i] {
			return false
		}
	}
	return true
}

func describeEnd(p *Proc) string {
	switch p.End {
	case EndReturned:
		if p.Err == nil {
			return "returned nil"
		}
		return "returned error: " + p.Err.Error()
	case EndExited:
		return fmt.Sprintf("exited(%d)", p.ExitCode)
	case EndPanicked:
		return fmt.Sprintf("panicked(%T: %v)", p.PanicVal, p.PanicVal)
	case EndBudget:
		return "unwound by the simulator: " + p.Budget + " budget exceeded"
	}
	return "none"
}
